#!/usr/bin/env python3
"""Entry point of every MANIFEST command:  run_check.py <property id> --tier quick|thorough
   exit 0: every obligation discharged (unsat), witnesses replayed and conforming
   exit 1: VIOLATION property=<id> replay=<path>   (a solver counterexample that reproduced natively)
   exit 2: inconclusive (unsupported construct, solver timeout, non-reproducing counterexample, bound too small)
"""
import argparse
import json
import os
import sys
import time

HERE = os.path.dirname(os.path.abspath(__file__))
sys.path.insert(0, HERE)
os.environ.setdefault('VERIF_SCRATCH', '/var/tmp')

FAMILY = {
    'C01': 'proto', 'C04': 'proto', 'C07': 'proto', 'C08': 'proto', 'C10': 'proto', 'C11': 'proto', 'C17': 'proto', 'C20': 'proto', 'C06': 'proto',
    'C02': 'incr', 'C03': 'incr', 'C05': 'incr', 'C12': 'clean', 'C13': 'resolve', 'C18': 'incr',
    'C09': 'resolve', 'C14': 'resolve', 'C19': 'resolve',
    'C15': 'leaf', 'C16': 'leaf',
}


def main():
    ap = argparse.ArgumentParser()
    ap.add_argument('prop', nargs='?')
    ap.add_argument('--tier', default=os.environ.get('VERIF_TIER', 'quick'))
    ap.add_argument('--replay')
    ap.add_argument('--repo', default=os.environ.get('VERIF_REPO', '/repo'))
    ap.add_argument('--jobs', type=int, default=int(os.environ.get('VERIF_JOBS', '16')))
    a = ap.parse_args()
    seed = int(os.environ.get('VERIF_SEED', '0') or 0)
    if a.replay:
        from zx.drivers import common
        sys.exit(common.replay_file(a.replay, a.repo))
    fam = FAMILY.get(a.prop)
    if fam is None:
        print('unknown property', a.prop)
        sys.exit(2)
    if fam == 'proto':
        from zx.drivers import proto_run as drv
    elif fam == 'incr':
        from zx.drivers import incr_run as drv
    elif fam == 'clean':
        from zx.drivers import clean_run as drv
    elif fam == 'resolve':
        from zx.drivers import resolve_run as drv
    else:
        from zx.drivers import leaf_run as drv
    rc = drv.run(a.prop, a.tier, seed, a.repo, a.jobs)
    sys.exit(rc)


if __name__ == '__main__':
    main()
