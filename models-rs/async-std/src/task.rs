use std::cell::RefCell;
use std::future::Future;
use std::pin::Pin;
use std::rc::Rc;
use std::task::{Context, Poll};

pub struct JoinHandle<T> {
    slot: Rc<RefCell<Option<T>>>,
    id: usize,
}
unsafe impl<T> Send for JoinHandle<T> {}
impl<T> Unpin for JoinHandle<T> {}
impl<T> Future for JoinHandle<T> {
    type Output = T;
    fn poll(self: Pin<&mut Self>, _cx: &mut Context<'_>) -> Poll<T> {
        match self.slot.borrow_mut().take() {
            Some(v) => {
                zx_rt::log(&format!("joined {}", self.id));
                zx_rt::bump();
                Poll::Ready(v)
            }
            None => Poll::Pending,
        }
    }
}
pub fn spawn<F, T>(future: F) -> JoinHandle<T>
where
    F: Future<Output = T> + 'static,
    T: 'static,
{
    let slot = Rc::new(RefCell::new(None));
    let s2 = slot.clone();
    let fut = Box::pin(async move {
        let v = future.await;
        *s2.borrow_mut() = Some(v);
    });
    let id = zx_rt::spawn_task(fut);
    JoinHandle { slot, id }
}
pub fn spawn_blocking<F, T>(f: F) -> JoinHandle<T>
where
    F: FnOnce() -> T + 'static,
    T: 'static,
{
    JoinHandle { slot: Rc::new(RefCell::new(Some(f()))), id: usize::MAX }
}
pub fn block_on<F: Future>(future: F) -> F::Output {
    zx_rt::block_on(future)
}
