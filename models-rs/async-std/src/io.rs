pub use std::io::{Error, ErrorKind, Result};
use std::future::Future;
use std::pin::Pin;
use std::task::{Context, Poll};
pub trait Read {
    fn poll_read(&mut self, buf: &mut [u8]) -> Poll<Result<usize>>;
}
pub struct BufReader<R> {
    inner: R,
}
impl<R> BufReader<R> {
    pub fn new(inner: R) -> Self {
        Self { inner }
    }
}
impl<R: Read> Read for BufReader<R> {
    fn poll_read(&mut self, buf: &mut [u8]) -> Poll<Result<usize>> {
        self.inner.poll_read(buf)
    }
}
pub trait ReadExt: Read {
    fn read<'a>(&'a mut self, buf: &'a mut [u8]) -> ReadFut<'a, Self>
    where
        Self: Sized,
    {
        ReadFut { r: self, buf }
    }
}
impl<R: Read> ReadExt for R {}
pub struct ReadFut<'a, R> {
    r: &'a mut R,
    buf: &'a mut [u8],
}
impl<'a, R> Unpin for ReadFut<'a, R> {}
impl<'a, R: Read> Future for ReadFut<'a, R> {
    type Output = Result<usize>;
    fn poll(mut self: Pin<&mut Self>, _cx: &mut Context<'_>) -> Poll<Result<usize>> {
        let this = &mut *self;
        this.r.poll_read(this.buf)
    }
}
