//! Cooperative models of async_std::sync::{Mutex, RwLock}: a lock that is taken keeps the acquiring task pending
//! (logged as `lock_blocked`), so a task waiting for a lock held by another task shows up in the schedule log.
use std::cell::{Cell, UnsafeCell};
use std::future::Future;
use std::ops::{Deref, DerefMut};
use std::pin::Pin;
use std::task::{Context, Poll};

pub use std::sync::{Arc, Weak};

pub struct Mutex<T: ?Sized> {
    locked: Cell<bool>,
    value: UnsafeCell<T>,
}
unsafe impl<T: ?Sized + Send> Send for Mutex<T> {}
unsafe impl<T: ?Sized + Send> Sync for Mutex<T> {}

impl<T> Mutex<T> {
    pub fn new(t: T) -> Mutex<T> {
        Mutex { locked: Cell::new(false), value: UnsafeCell::new(t) }
    }
    pub fn into_inner(self) -> T {
        self.value.into_inner()
    }
}
impl<T: ?Sized> Mutex<T> {
    pub fn lock(&self) -> LockFut<'_, T> {
        LockFut { m: self, logged: false }
    }
    pub fn try_lock(&self) -> Option<MutexGuard<'_, T>> {
        if self.locked.get() {
            None
        } else {
            self.locked.set(true);
            Some(MutexGuard { m: self })
        }
    }
    pub fn get_mut(&mut self) -> &mut T {
        self.value.get_mut()
    }
}
impl<T: Default> Default for Mutex<T> {
    fn default() -> Self {
        Mutex::new(T::default())
    }
}
pub struct LockFut<'a, T: ?Sized> {
    m: &'a Mutex<T>,
    logged: bool,
}
impl<'a, T: ?Sized> Future for LockFut<'a, T> {
    type Output = MutexGuard<'a, T>;
    fn poll(mut self: Pin<&mut Self>, _cx: &mut Context<'_>) -> Poll<Self::Output> {
        if self.m.locked.get() {
            if !self.logged {
                zx_rt::log(&format!("lock_blocked task={}", zx_rt::rt().cur_task));
                self.logged = true;
            }
            return Poll::Pending;
        }
        self.m.locked.set(true);
        zx_rt::log(&format!("lock_acquired task={}", zx_rt::rt().cur_task));
        zx_rt::bump();
        Poll::Ready(MutexGuard { m: self.m })
    }
}
pub struct MutexGuard<'a, T: ?Sized> {
    m: &'a Mutex<T>,
}
unsafe impl<T: ?Sized + Send> Send for MutexGuard<'_, T> {}
unsafe impl<T: ?Sized + Sync> Sync for MutexGuard<'_, T> {}
impl<T: ?Sized> Deref for MutexGuard<'_, T> {
    type Target = T;
    fn deref(&self) -> &T {
        unsafe { &*self.m.value.get() }
    }
}
impl<T: ?Sized> DerefMut for MutexGuard<'_, T> {
    fn deref_mut(&mut self) -> &mut T {
        unsafe { &mut *self.m.value.get() }
    }
}
impl<T: ?Sized> Drop for MutexGuard<'_, T> {
    fn drop(&mut self) {
        self.m.locked.set(false);
        zx_rt::log("lock_released");
        zx_rt::bump();
    }
}

/// RwLock: modelled as exclusive for writers, shared for readers.
pub struct RwLock<T: ?Sized> {
    readers: Cell<usize>,
    writer: Cell<bool>,
    value: UnsafeCell<T>,
}
unsafe impl<T: ?Sized + Send> Send for RwLock<T> {}
unsafe impl<T: ?Sized + Send + Sync> Sync for RwLock<T> {}
impl<T> RwLock<T> {
    pub fn new(t: T) -> RwLock<T> {
        RwLock { readers: Cell::new(0), writer: Cell::new(false), value: UnsafeCell::new(t) }
    }
}
impl<T: ?Sized> RwLock<T> {
    pub fn read(&self) -> ReadFut<'_, T> {
        ReadFut { l: self, logged: false }
    }
    pub fn write(&self) -> WriteFut<'_, T> {
        WriteFut { l: self, logged: false }
    }
}
pub struct ReadFut<'a, T: ?Sized> {
    l: &'a RwLock<T>,
    logged: bool,
}
impl<'a, T: ?Sized> Future for ReadFut<'a, T> {
    type Output = RwLockReadGuard<'a, T>;
    fn poll(mut self: Pin<&mut Self>, _cx: &mut Context<'_>) -> Poll<Self::Output> {
        if self.l.writer.get() {
            if !self.logged {
                zx_rt::log(&format!("lock_blocked task={}", zx_rt::rt().cur_task));
                self.logged = true;
            }
            return Poll::Pending;
        }
        self.l.readers.set(self.l.readers.get() + 1);
        zx_rt::bump();
        Poll::Ready(RwLockReadGuard { l: self.l })
    }
}
pub struct WriteFut<'a, T: ?Sized> {
    l: &'a RwLock<T>,
    logged: bool,
}
impl<'a, T: ?Sized> Future for WriteFut<'a, T> {
    type Output = RwLockWriteGuard<'a, T>;
    fn poll(mut self: Pin<&mut Self>, _cx: &mut Context<'_>) -> Poll<Self::Output> {
        if self.l.writer.get() || self.l.readers.get() > 0 {
            if !self.logged {
                zx_rt::log(&format!("lock_blocked task={}", zx_rt::rt().cur_task));
                self.logged = true;
            }
            return Poll::Pending;
        }
        self.l.writer.set(true);
        zx_rt::bump();
        Poll::Ready(RwLockWriteGuard { l: self.l })
    }
}
pub struct RwLockReadGuard<'a, T: ?Sized> {
    l: &'a RwLock<T>,
}
impl<T: ?Sized> Deref for RwLockReadGuard<'_, T> {
    type Target = T;
    fn deref(&self) -> &T {
        unsafe { &*self.l.value.get() }
    }
}
impl<T: ?Sized> Drop for RwLockReadGuard<'_, T> {
    fn drop(&mut self) {
        self.l.readers.set(self.l.readers.get() - 1);
        zx_rt::bump();
    }
}
pub struct RwLockWriteGuard<'a, T: ?Sized> {
    l: &'a RwLock<T>,
}
impl<T: ?Sized> Deref for RwLockWriteGuard<'_, T> {
    type Target = T;
    fn deref(&self) -> &T {
        unsafe { &*self.l.value.get() }
    }
}
impl<T: ?Sized> DerefMut for RwLockWriteGuard<'_, T> {
    fn deref_mut(&mut self) -> &mut T {
        unsafe { &mut *self.l.value.get() }
    }
}
impl<T: ?Sized> Drop for RwLockWriteGuard<'_, T> {
    fn drop(&mut self) {
        self.l.writer.set(false);
        zx_rt::bump();
    }
}
