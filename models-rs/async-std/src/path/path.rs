use std::borrow::{Cow, ToOwned};
use std::cmp::Ordering;
use std::ffi::{OsStr, OsString};
use std::rc::Rc;
use std::sync::Arc;

use crate::path::{Ancestors, Components, Display, Iter, PathBuf, StripPrefixError};
#[cfg(not(target_os = "unknown"))]
use crate::{fs, io};

/// A slice of a path.
///
/// This struct is an async version of [`std::path::Path`].
///
/// This type supports a number of operations for inspecting a path, including
/// breaking the path into its components (separated by `/` on Unix and by either
/// `/` or `\` on Windows), extracting the file name, determining whether the path
/// is absolute, and so on.
///
/// This is an *unsized* type, meaning that it must always be used behind a
/// pointer like `&` or `Box`. For an owned version of this type,
/// see [`PathBuf`].
///
/// [`PathBuf`]: struct.PathBuf.html
/// [`std::path::Path`]: https://doc.rust-lang.org/std/path/struct.Path.html
///
/// More details about the overall approach can be found in
/// the [module documentation](index.html).
///
/// # Examples
///
/// ```
/// use std::path::Path;
/// use std::ffi::OsStr;
///
/// // Note: this example does work on Windows
/// let path = Path::new("./foo/bar.txt");
///
/// let parent = path.parent();
/// assert_eq!(parent, Some(Path::new("./foo")));
///
/// let file_stem = path.file_stem();
/// assert_eq!(file_stem, Some(OsStr::new("bar")));
///
/// let extension = path.extension();
/// assert_eq!(extension, Some(OsStr::new("txt")));
/// ```
#[derive(Debug, PartialEq, Eq, Hash, PartialOrd, Ord)]
pub struct Path {
    inner: std::path::Path,
}

impl Path {
    /// Directly wraps a string slice as a `Path` slice.
    ///
    /// This is a cost-free conversion.
    ///
    /// # Examples
    ///
    /// ```
    /// use async_std::path::Path;
    ///
    /// Path::new("foo.txt");
    /// ```
    ///
    /// You can create `Path`s from `String`s, or even other `Path`s:
    ///
    /// ```
    /// use async_std::path::Path;
    ///
    /// let string = String::from("foo.txt");
    /// let from_string = Path::new(&string);
    /// let from_path = Path::new(&from_string);
    /// assert_eq!(from_string, from_path);
    /// ```
    pub fn new<S: AsRef<OsStr> + ?Sized>(s: &S) -> &Path {
        unsafe { &*(std::path::Path::new(s) as *const std::path::Path as *const Path) }
    }

    /// Returns the underlying [`OsStr`] slice.
    ///
    /// [`OsStr`]: https://doc.rust-lang.org/std/ffi/struct.OsStr.html
    ///
    /// # Examples
    ///
    /// ```
    /// use std::ffi::OsStr;
    ///
    /// use async_std::path::Path;
    ///
    /// let os_str = Path::new("foo.txt").as_os_str();
    /// assert_eq!(os_str, OsStr::new("foo.txt"));
    /// ```
    pub fn as_os_str(&self) -> &OsStr {
        self.inner.as_os_str()
    }

    /// Returns a [`&str`] slice if the `Path` is valid unicode.
    ///
    /// This conversion may entail doing a check for UTF-8 validity.
    /// Note that validation is performed because non-UTF-8 strings are
    /// perfectly valid for some OS.
    ///
    /// [`&str`]: https://doc.rust-lang.org/std/primitive.str.html
    ///
    /// # Examples
    ///
    /// ```
    /// use async_std::path::Path;
    ///
    /// let path = Path::new("foo.txt");
    /// assert_eq!(path.to_str(), Some("foo.txt"));
    /// ```
    pub fn to_str(&self) -> Option<&str> {
        self.inner.to_str()
    }

    /// Converts a `Path` to a [`Cow<str>`].
    ///
    /// Any non-Unicode sequences are replaced with
    /// [`U+FFFD REPLACEMENT CHARACTER`][U+FFFD].
    ///
    /// [`Cow<str>`]: https://doc.rust-lang.org/std/borrow/enum.Cow.html
    /// [U+FFFD]: https://doc.rust-lang.org/std/char/constant.REPLACEMENT_CHARACTER.html
    ///
    /// # Examples
    ///
    /// Calling `to_string_lossy` on a `Path` with valid unicode:
    ///
    /// ```
    /// use async_std::path::Path;
    ///
    /// let path = Path::new("foo.txt");
    /// assert_eq!(path.to_string_lossy(), "foo.txt");
    /// ```
    ///
    /// Had `path` contained invalid unicode, the `to_string_lossy` call might
    /// have returned `"fo�.txt"`.
    pub fn to_string_lossy(&self) -> Cow<'_, str> {
        self.inner.to_string_lossy()
    }

    /// Converts a `Path` to an owned [`PathBuf`].
    ///
    /// [`PathBuf`]: struct.PathBuf.html
    ///
    /// # Examples
    ///
    /// ```
    /// use async_std::path::{Path, PathBuf};
    ///
    /// let path_buf = Path::new("foo.txt").to_path_buf();
    /// assert_eq!(path_buf, PathBuf::from("foo.txt"));
    /// ```
    pub fn to_path_buf(&self) -> PathBuf {
        PathBuf::from(self.inner.to_path_buf())
    }

    /// Returns `true` if the `Path` is absolute, i.e. if it is independent of
    /// the current directory.
    ///
    /// * On Unix, a path is absolute if it starts with the root, so
    ///   `is_absolute` and [`has_root`] are equivalent.
    ///
    /// * On Windows, a path is absolute if it has a prefix and starts with the
    ///   root: `c:\windows` is absolute, while `c:temp` and `\temp` are not.
    ///
    /// [`has_root`]: #method.has_root
    ///
    /// # Examples
    ///
    /// ```
    /// use async_std::path::Path;
    ///
    /// assert!(!Path::new("foo.txt").is_absolute());
    /// ```
    pub fn is_absolute(&self) -> bool {
        self.inner.is_absolute()
    }

    /// Returns `true` if the `Path` is relative, i.e. not absolute.
    ///
    /// See [`is_absolute`]'s documentation for more details.
    ///
    /// [`is_absolute`]: #method.is_absolute
    ///
    /// # Examples
    ///
    /// ```
    /// use async_std::path::Path;
    ///
    /// assert!(Path::new("foo.txt").is_relative());
    /// ```
    pub fn is_relative(&self) -> bool {
        self.inner.is_relative()
    }

    /// Returns `true` if the `Path` has a root.
    ///
    /// * On Unix, a path has a root if it begins with `/`.
    ///
    /// * On Windows, a path has a root if it:
    ///     * has no prefix and begins with a separator, e.g. `\windows`
    ///     * has a prefix followed by a separator, e.g. `c:\windows` but not `c:windows`
    ///     * has any non-disk prefix, e.g. `\\server\share`
    ///
    /// # Examples
    ///
    /// ```
    /// use async_std::path::Path;
    ///
    /// assert!(Path::new("/etc/passwd").has_root());
    /// ```
    pub fn has_root(&self) -> bool {
        self.inner.has_root()
    }

    /// Returns the `Path` without its final component, if there is one.
    ///
    /// Returns [`None`] if the path terminates in a root or prefix.
    ///
    /// [`None`]: https://doc.rust-lang.org/std/option/enum.Option.html#variant.None
    ///
    /// # Examples
    ///
    /// ```
    /// use async_std::path::Path;
    ///
    /// let path = Path::new("/foo/bar");
    /// let parent = path.parent().unwrap();
    /// assert_eq!(parent, Path::new("/foo"));
    ///
    /// let grand_parent = parent.parent().unwrap();
    /// assert_eq!(grand_parent, Path::new("/"));
    /// assert_eq!(grand_parent.parent(), None);
    /// ```
    pub fn parent(&self) -> Option<&Path> {
        self.inner.parent().map(|p| p.into())
    }

    /// Produces an iterator over `Path` and its ancestors.
    ///
    /// The iterator will yield the `Path` that is returned if the [`parent`] method is used zero
    /// or more times. That means, the iterator will yield `&self`, `&self.parent().unwrap()`,
    /// `&self.parent().unwrap().parent().unwrap()` and so on. If the [`parent`] method returns
    /// [`None`], the iterator will do likewise. The iterator will always yield at least one value,
    /// namely `&self`.
    ///
    /// [`None`]: https://doc.rust-lang.org/std/option/enum.Option.html
    /// [`parent`]: struct.Path.html#method.parent
    ///
    /// # Examples
    ///
    /// ```
    /// use async_std::path::Path;
    ///
    /// let mut ancestors = Path::new("/foo/bar").ancestors();
    /// assert_eq!(ancestors.next(), Some(Path::new("/foo/bar").into()));
    /// assert_eq!(ancestors.next(), Some(Path::new("/foo").into()));
    /// assert_eq!(ancestors.next(), Some(Path::new("/").into()));
    /// assert_eq!(ancestors.next(), None);
    /// ```
    pub fn ancestors(&self) -> Ancestors<'_> {
        Ancestors { next: Some(&self) }
    }

    /// Returns the final component of the `Path`, if there is one.
    ///
    /// If the path is a normal file, this is the file name. If it's the path of a directory, this
    /// is the directory name.
    ///
    /// Returns [`None`] if the path terminates in `..`.
    ///
    /// [`None`]: https://doc.rust-lang.org/std/option/enum.Option.html#variant.None
    ///
    /// # Examples
    ///
    /// ```
    /// use std::ffi::OsStr;
    ///
    /// use async_std::path::Path;
    ///
    /// assert_eq!(Some(OsStr::new("bin")), Path::new("/usr/bin/").file_name());
    /// assert_eq!(Some(OsStr::new("foo.txt")), Path::new("tmp/foo.txt").file_name());
    /// assert_eq!(Some(OsStr::new("foo.txt")), Path::new("foo.txt/.").file_name());
    /// assert_eq!(Some(OsStr::new("foo.txt")), Path::new("foo.txt/.//").file_name());
    /// assert_eq!(None, Path::new("foo.txt/..").file_name());
    /// assert_eq!(None, Path::new("/").file_name());
    /// ```
    pub fn file_name(&self) -> Option<&OsStr> {
        self.inner.file_name()
    }

    /// Returns a path that becomes `self` when joined onto `base`.
    ///
    /// # Errors
    ///
    /// If `base` is not a prefix of `self` (i.e., [`starts_with`]
    /// returns `false`), returns [`Err`].
    ///
    /// [`starts_with`]: #method.starts_with
    /// [`Err`]: https://doc.rust-lang.org/std/result/enum.Result.html#variant.Err
    ///
    /// # Examples
    ///
    /// ```
    /// use async_std::path::{Path, PathBuf};
    ///
    /// let path = Path::new("/test/haha/foo.txt");
    ///
    /// assert_eq!(path.strip_prefix("/"), Ok(Path::new("test/haha/foo.txt")));
    /// assert_eq!(path.strip_prefix("/test"), Ok(Path::new("haha/foo.txt")));
    /// assert_eq!(path.strip_prefix("/test/"), Ok(Path::new("haha/foo.txt")));
    /// assert_eq!(path.strip_prefix("/test/haha/foo.txt"), Ok(Path::new("")));
    /// assert_eq!(path.strip_prefix("/test/haha/foo.txt/"), Ok(Path::new("")));
    /// assert_eq!(path.strip_prefix("test").is_ok(), false);
    /// assert_eq!(path.strip_prefix("/haha").is_ok(), false);
    ///
    /// let prefix = PathBuf::from("/test/");
    /// assert_eq!(path.strip_prefix(prefix), Ok(Path::new("haha/foo.txt")));
    /// ```
    pub fn strip_prefix<P>(&self, base: P) -> Result<&Path, StripPrefixError>
    where
        P: AsRef<Path>,
    {
        Ok(self.inner.strip_prefix(base.as_ref())?.into())
    }

    /// Determines whether `base` is a prefix of `self`.
    ///
    /// Only considers whole path components to match.
    ///
    /// # Examples
    ///
    /// ```
    /// use async_std::path::Path;
    ///
    /// let path = Path::new("/etc/passwd");
    ///
    /// assert!(path.starts_with("/etc"));
    /// assert!(path.starts_with("/etc/"));
    /// assert!(path.starts_with("/etc/passwd"));
    /// assert!(path.starts_with("/etc/passwd/"));
    ///
    /// assert!(!path.starts_with("/e"));
    /// ```
    pub fn starts_with<P: AsRef<Path>>(&self, base: P) -> bool {
        self.inner.starts_with(base.as_ref())
    }

    /// Determines whether `child` is a suffix of `self`.
    ///
    /// Only considers whole path components to match.
    ///
    /// # Examples
    ///
    /// ```
    /// use async_std::path::Path;
    ///
    /// let path = Path::new("/etc/passwd");
    ///
    /// assert!(path.ends_with("passwd"));
    /// ```
    pub fn ends_with<P: AsRef<Path>>(&self, child: P) -> bool {
        self.inner.ends_with(child.as_ref())
    }

    /// Extracts the stem (non-extension) portion of [`file_name`].
    ///
    /// [`file_name`]: struct.Path.html#method.file_name
    ///
    /// The stem is:
    ///
    /// * [`None`], if there is no file name
    /// * The entire file name if there is no embedded `.`
    /// * The entire file name if the file name begins with `.` and has no other `.`s within
    /// * Otherwise, the portion of the file name before the final `.`
    ///
    /// [`None`]: https://doc.rust-lang.org/std/option/enum.Option.html#variant.None
    ///
    /// # Examples
    ///
    /// ```
    /// use async_std::path::Path;
    ///
    /// let path = Path::new("foo.rs");
    ///
    /// assert_eq!("foo", path.file_stem().unwrap());
    /// ```
    pub fn file_stem(&self) -> Option<&OsStr> {
        self.inner.file_stem()
    }

    /// Extracts the extension of [`file_name`], if possible.
    ///
    /// The extension is:
    ///
    /// * [`None`], if there is no file name
    /// * [`None`], if there is no embedded `.`
    /// * [`None`], if the file name begins with `.` and has no other `.`s within
    /// * Otherwise, the portion of the file name after the final `.`
    ///
    /// [`file_name`]: struct.Path.html#method.file_name
    /// [`None`]: https://doc.rust-lang.org/std/option/enum.Option.html#variant.None
    ///
    /// # Examples
    ///
    /// ```
    /// use async_std::path::Path;
    ///
    /// let path = Path::new("foo.rs");
    ///
    /// assert_eq!("rs", path.extension().unwrap());
    /// ```
    pub fn extension(&self) -> Option<&OsStr> {
        self.inner.extension()
    }

    /// Creates an owned [`PathBuf`] with `path` adjoined to `self`.
    ///
    /// See [`PathBuf::push`] for more details on what it means to adjoin a path.
    ///
    /// [`PathBuf`]: struct.PathBuf.html
    /// [`PathBuf::push`]: struct.PathBuf.html#method.push
    ///
    /// # Examples
    ///
    /// ```
    /// use async_std::path::{Path, PathBuf};
    ///
    /// assert_eq!(Path::new("/etc").join("passwd"), PathBuf::from("/etc/passwd"));
    /// ```
    pub fn join<P: AsRef<Path>>(&self, path: P) -> PathBuf {
        self.inner.join(path.as_ref()).into()
    }

    /// Creates an owned [`PathBuf`] like `self` but with the given file name.
    ///
    /// See [`PathBuf::set_file_name`] for more details.
    ///
    /// [`PathBuf`]: struct.PathBuf.html
    /// [`PathBuf::set_file_name`]: struct.PathBuf.html#method.set_file_name
    ///
    /// # Examples
    ///
    /// ```
    /// use async_std::path::{Path, PathBuf};
    ///
    /// let path = Path::new("/tmp/foo.txt");
    /// assert_eq!(path.with_file_name("bar.txt"), PathBuf::from("/tmp/bar.txt"));
    ///
    /// let path = Path::new("/tmp");
    /// assert_eq!(path.with_file_name("var"), PathBuf::from("/var"));
    /// ```
    pub fn with_file_name<S: AsRef<OsStr>>(&self, file_name: S) -> PathBuf {
        self.inner.with_file_name(file_name).into()
    }

    /// Creates an owned [`PathBuf`] like `self` but with the given extension.
    ///
    /// See [`PathBuf::set_extension`] for more details.
    ///
    /// [`PathBuf`]: struct.PathBuf.html
    /// [`PathBuf::set_extension`]: struct.PathBuf.html#method.set_extension
    ///
    /// # Examples
    ///
    /// ```
    /// use async_std::path::{Path, PathBuf};
    ///
    /// let path = Path::new("foo.rs");
    /// assert_eq!(path.with_extension("txt"), PathBuf::from("foo.txt"));
    /// ```
    pub fn with_extension<S: AsRef<OsStr>>(&self, extension: S) -> PathBuf {
        self.inner.with_extension(extension).into()
    }

    /// Produces an iterator over the [`Component`]s of the path.
    ///
    /// When parsing the path, there is a small amount of normalization:
    ///
    /// * Repeated separators are ignored, so `a/b` and `a//b` both have
    ///   `a` and `b` as components.
    ///
    /// * Occurrences of `.` are normalized away, except if they are at the
    ///   beginning of the path. For example, `a/./b`, `a/b/`, `a/b/.` and
    ///   `a/b` all have `a` and `b` as components, but `./a/b` starts with
    ///   an additional [`CurDir`] component.
    ///
    /// * A trailing slash is normalized away, `/a/b` and `/a/b/` are equivalent.
    ///
    /// Note that no other normalization takes place; in particular, `a/c`
    /// and `a/b/../c` are distinct, to account for the possibility that `b`
    /// is a symbolic link (so its parent isn't `a`).
    ///
    /// [`Component`]: enum.Component.html
    /// [`CurDir`]: enum.Component.html#variant.CurDir
    ///
    /// # Examples
    ///
    /// ```
    /// use std::ffi::OsStr;
    ///
    /// use async_std::path::{Path, Component};
    ///
    /// let mut components = Path::new("/tmp/foo.txt").components();
    ///
    /// assert_eq!(components.next(), Some(Component::RootDir));
    /// assert_eq!(components.next(), Some(Component::Normal(OsStr::new("tmp"))));
    /// assert_eq!(components.next(), Some(Component::Normal(OsStr::new("foo.txt"))));
    /// assert_eq!(components.next(), None);
    /// ```
    pub fn components(&self) -> Components<'_> {
        Components {
            inner: self.inner.components(),
        }
    }

    /// Produces an iterator over the path's components viewed as [`OsStr`]
    /// slices.
    ///
    /// For more information about the particulars of how the path is separated
    /// into components, see [`components`].
    ///
    /// [`components`]: #method.components
    /// [`OsStr`]: https://doc.rust-lang.org/std/ffi/struct.OsStr.html
    ///
    /// # Examples
    ///
    /// ```
    /// use std::ffi::OsStr;
    ///
    /// use async_std::path::{self, Path};
    ///
    /// let mut it = Path::new("/tmp/foo.txt").iter();
    /// assert_eq!(it.next(), Some(OsStr::new(&path::MAIN_SEPARATOR.to_string())));
    /// assert_eq!(it.next(), Some(OsStr::new("tmp")));
    /// assert_eq!(it.next(), Some(OsStr::new("foo.txt")));
    /// assert_eq!(it.next(), None)
    /// ```
    pub fn iter(&self) -> Iter<'_> {
        Iter {
            inner: self.components(),
        }
    }

    /// Returns an object that implements [`Display`] for safely printing paths
    /// that may contain non-Unicode data.
    ///
    /// [`Display`]: https://doc.rust-lang.org/std/fmt/trait.Display.html
    ///
    /// # Examples
    ///
    /// ```
    /// use async_std::path::Path;
    ///
    /// let path = Path::new("/tmp/foo.rs");
    ///
    /// println!("{}", path.display());
    /// ```
    pub fn display(&self) -> Display<'_> {
        self.inner.display()
    }

    /// Reads the metadata of a file or directory.
    ///
    /// This function will traverse symbolic links to query information about the
    /// destination file.
    ///
    /// This is an alias to [`fs::metadata`].
    ///
    /// [`fs::metadata`]: ../fs/fn.metadata.html
    ///
    /// # Examples
    ///
    /// ```no_run
    /// # fn main() -> std::io::Result<()> { async_std::task::block_on(async {
    /// #
    /// use async_std::path::Path;
    ///
    /// let path = Path::new("/Minas/tirith");
    /// let metadata = path.metadata().await?;
    /// println!("{:?}", metadata.file_type());
    /// #
    /// # Ok(()) }) }
    /// ```
    #[cfg(not(target_os = "unknown"))]
    pub async fn metadata(&self) -> io::Result<fs::Metadata> {
        fs::metadata(self).await
    }

    /// Reads the metadata of a file or directory without following symbolic links.
    ///
    /// This is an alias to [`fs::symlink_metadata`].
    ///
    /// [`fs::symlink_metadata`]: ../fs/fn.symlink_metadata.html
    ///
    /// # Examples
    ///
    /// ```no_run
    /// # fn main() -> std::io::Result<()> { async_std::task::block_on(async {
    /// #
    /// use async_std::path::Path;
    ///
    /// let path = Path::new("/Minas/tirith");
    /// let metadata = path.symlink_metadata().await?;
    /// println!("{:?}", metadata.file_type());
    /// #
    /// # Ok(()) }) }
    /// ```
    #[cfg(not(target_os = "unknown"))]
    pub async fn symlink_metadata(&self) -> io::Result<fs::Metadata> {
        fs::symlink_metadata(self).await
    }

    /// Returns the canonical form of a path.
    ///
    /// The returned path is in absolute form with all intermediate components normalized and
    /// symbolic links resolved.
    ///
    /// This is an alias to [`fs::canonicalize`].
    ///
    /// [`fs::canonicalize`]: ../fs/fn.canonicalize.html
    ///
    /// # Examples
    ///
    /// ```no_run
    /// # fn main() -> std::io::Result<()> { async_std::task::block_on(async {
    /// #
    /// use async_std::path::{Path, PathBuf};
    ///
    /// let path = Path::new("/foo/test/../test/bar.rs");
    /// assert_eq!(path.canonicalize().await?, PathBuf::from("/foo/test/bar.rs"));
    /// #
    /// # Ok(()) }) }
    /// ```
    #[cfg(not(target_os = "unknown"))]
    pub async fn canonicalize(&self) -> io::Result<PathBuf> {
        fs::canonicalize(self).await
    }

    /// Reads a symbolic link, returning the file that the link points to.
    ///
    /// This is an alias to [`fs::read_link`].
    ///
    /// [`fs::read_link`]: ../fs/fn.read_link.html
    ///
    /// # Examples
    ///
    /// ```no_run
    /// # fn main() -> std::io::Result<()> { async_std::task::block_on(async {
    /// #
    /// use async_std::path::Path;
    ///
    /// let path = Path::new("/laputa/sky_castle.rs");
    /// let path_link = path.read_link().await?;
    /// #
    /// # Ok(()) }) }
    /// ```
    #[cfg(not(target_os = "unknown"))]
    pub async fn read_link(&self) -> io::Result<PathBuf> {
        fs::read_link(self).await
    }

    /// Returns a stream over the entries within a directory.
    ///
    /// The stream will yield instances of [`io::Result`]`<`[`DirEntry`]`>`. New
    /// errors may be encountered after an iterator is initially constructed.
    ///
    /// This is an alias to [`fs::read_dir`].
    ///
    /// [`io::Result`]: ../io/type.Result.html
    /// [`DirEntry`]: ../fs/struct.DirEntry.html
    /// [`fs::read_dir`]: ../fs/fn.read_dir.html
    ///
    /// # Examples
    ///
    /// ```no_run
    /// # fn main() -> std::io::Result<()> { async_std::task::block_on(async {
    /// #
    /// use async_std::fs;
    /// use async_std::path::Path;
    /// use async_std::prelude::*;
    ///
    /// let path = Path::new("/laputa");
    /// let mut dir = fs::read_dir(&path).await?;
    ///
    /// while let Some(res) = dir.next().await {
    ///     let entry = res?;
    ///     println!("{}", entry.file_name().to_string_lossy());
    /// }
    /// #
    /// # Ok(()) }) }
    /// ```
    #[cfg(not(target_os = "unknown"))]
    pub async fn read_dir(&self) -> io::Result<fs::ReadDir> {
        fs::read_dir(self).await
    }

    /// Returns `true` if the path points at an existing entity.
    ///
    /// This function will traverse symbolic links to query information about the
    /// destination file. In case of broken symbolic links this will return `false`.
    ///
    /// If you cannot access the directory containing the file, e.g., because of a
    /// permission error, this will return `false`.
    ///
    /// # Examples
    ///
    /// ```no_run
    /// # fn main() -> std::io::Result<()> { async_std::task::block_on(async {
    /// #
    /// use async_std::path::Path;
    /// assert_eq!(Path::new("does_not_exist.txt").exists().await, false);
    /// #
    /// # Ok(()) }) }
    /// ```
    ///
    /// # See Also
    ///
    /// This is a convenience function that coerces errors to false. If you want to
    /// check errors, call [fs::metadata].
    ///
    /// [fs::metadata]: ../fs/fn.metadata.html
    #[cfg(not(target_os = "unknown"))]
    pub async fn exists(&self) -> bool {
        fs::metadata(self).await.is_ok()
    }

    /// Returns `true` if the path exists on disk and is pointing at a regular file.
    ///
    /// This function will traverse symbolic links to query information about the
    /// destination file. In case of broken symbolic links this will return `false`.
    ///
    /// If you cannot access the directory containing the file, e.g., because of a
    /// permission error, this will return `false`.
    ///
    /// # Examples
    ///
    /// ```no_run
    /// # fn main() -> std::io::Result<()> { async_std::task::block_on(async {
    /// #
    /// use async_std::path::Path;
    /// assert_eq!(Path::new("./is_a_directory/").is_file().await, false);
    /// assert_eq!(Path::new("a_file.txt").is_file().await, true);
    /// #
    /// # Ok(()) }) }
    /// ```
    ///
    /// # See Also
    ///
    /// This is a convenience function that coerces errors to false. If you want to
    /// check errors, call [fs::metadata] and handle its Result. Then call
    /// [fs::Metadata::is_file] if it was Ok.
    ///
    /// [fs::metadata]: ../fs/fn.metadata.html
    /// [fs::Metadata::is_file]: ../fs/struct.Metadata.html#method.is_file
    #[cfg(not(target_os = "unknown"))]
    pub async fn is_file(&self) -> bool {
        fs::metadata(self)
            .await
            .map(|m| m.is_file())
            .unwrap_or(false)
    }

    /// Returns `true` if the path exists on disk and is pointing at a directory.
    ///
    /// This function will traverse symbolic links to query information about the
    /// destination file. In case of broken symbolic links this will return `false`.
    ///
    /// If you cannot access the directory containing the file, e.g., because of a
    /// permission error, this will return `false`.
    ///
    /// # Examples
    ///
    /// ```no_run
    /// # fn main() -> std::io::Result<()> { async_std::task::block_on(async {
    /// #
    /// use async_std::path::Path;
    ///
    /// assert_eq!(Path::new("./is_a_directory/").is_dir().await, true);
    /// assert_eq!(Path::new("a_file.txt").is_dir().await, false);
    /// #
    /// # Ok(()) }) }
    /// ```
    ///
    /// # See Also
    ///
    /// This is a convenience function that coerces errors to false. If you want to
    /// check errors, call [fs::metadata] and handle its Result. Then call
    /// [fs::Metadata::is_dir] if it was Ok.
    ///
    /// [fs::metadata]: ../fs/fn.metadata.html
    /// [fs::Metadata::is_dir]: ../fs/struct.Metadata.html#method.is_dir
    #[cfg(not(target_os = "unknown"))]
    pub async fn is_dir(&self) -> bool {
        fs::metadata(self)
            .await
            .map(|m| m.is_dir())
            .unwrap_or(false)
    }

    /// Converts a [`Box<Path>`][`Box`] into a [`PathBuf`] without copying or
    /// allocating.
    ///
    /// [`Box`]: https://doc.rust-lang.org/std/boxed/struct.Box.html
    /// [`PathBuf`]: struct.PathBuf.html
    ///
    /// # Examples
    ///
    /// ```
    /// use async_std::path::Path;
    ///
    /// let path: Box<Path> = Path::new("foo.txt").into();
    /// let path_buf = path.into_path_buf();
    /// ```
    pub fn into_path_buf(self: Box<Path>) -> PathBuf {
        let rw = Box::into_raw(self) as *mut std::path::Path;
        let inner = unsafe { Box::from_raw(rw) };
        inner.into_path_buf().into()
    }
}

impl From<&Path> for Box<Path> {
    fn from(path: &Path) -> Box<Path> {
        let boxed: Box<std::path::Path> = path.inner.into();
        let rw = Box::into_raw(boxed) as *mut Path;
        unsafe { Box::from_raw(rw) }
    }
}

impl From<&Path> for Arc<Path> {
    /// Converts a Path into a Rc by copying the Path data into a new Rc buffer.
    #[inline]
    fn from(s: &Path) -> Arc<Path> {
        let arc: Arc<OsStr> = Arc::from(s.as_os_str());
        unsafe { Arc::from_raw(Arc::into_raw(arc) as *const Path) }
    }
}

impl From<&Path> for Rc<Path> {
    #[inline]
    fn from(s: &Path) -> Rc<Path> {
        let rc: Rc<OsStr> = Rc::from(s.as_os_str());
        unsafe { Rc::from_raw(Rc::into_raw(rc) as *const Path) }
    }
}

impl ToOwned for Path {
    type Owned = PathBuf;

    fn to_owned(&self) -> PathBuf {
        self.to_path_buf()
    }
}

impl AsRef<OsStr> for Path {
    fn as_ref(&self) -> &OsStr {
        self.inner.as_ref()
    }
}

impl AsRef<Path> for Path {
    fn as_ref(&self) -> &Path {
        self
    }
}

impl AsRef<Path> for OsStr {
    fn as_ref(&self) -> &Path {
        Path::new(self)
    }
}

impl<'a> From<&'a Path> for Cow<'a, Path> {
    #[inline]
    fn from(s: &'a Path) -> Cow<'a, Path> {
        Cow::Borrowed(s)
    }
}

impl AsRef<Path> for Cow<'_, OsStr> {
    fn as_ref(&self) -> &Path {
        Path::new(self)
    }
}

impl AsRef<Path> for OsString {
    fn as_ref(&self) -> &Path {
        Path::new(self)
    }
}

impl AsRef<Path> for str {
    fn as_ref(&self) -> &Path {
        Path::new(self)
    }
}

impl AsRef<Path> for String {
    fn as_ref(&self) -> &Path {
        Path::new(self)
    }
}

impl AsRef<Path> for PathBuf {
    fn as_ref(&self) -> &Path {
        self
    }
}

impl<'a> IntoIterator for &'a PathBuf {
    type Item = &'a OsStr;
    type IntoIter = Iter<'a>;

    fn into_iter(self) -> Iter<'a> {
        self.iter()
    }
}

impl<'a> IntoIterator for &'a Path {
    type Item = &'a OsStr;
    type IntoIter = Iter<'a>;

    fn into_iter(self) -> Iter<'a> {
        self.iter()
    }
}

macro_rules! impl_cmp {
    ($lhs:ty, $rhs: ty) => {
        impl<'a, 'b> PartialEq<$rhs> for $lhs {
            #[inline]
            fn eq(&self, other: &$rhs) -> bool {
                <Path as PartialEq>::eq(self, other)
            }
        }

        impl<'a, 'b> PartialEq<$lhs> for $rhs {
            #[inline]
            fn eq(&self, other: &$lhs) -> bool {
                <Path as PartialEq>::eq(self, other)
            }
        }

        impl<'a, 'b> PartialOrd<$rhs> for $lhs {
            #[inline]
            fn partial_cmp(&self, other: &$rhs) -> Option<Ordering> {
                <Path as PartialOrd>::partial_cmp(self, other)
            }
        }

        impl<'a, 'b> PartialOrd<$lhs> for $rhs {
            #[inline]
            fn partial_cmp(&self, other: &$lhs) -> Option<Ordering> {
                <Path as PartialOrd>::partial_cmp(self, other)
            }
        }
    };
}

impl_cmp!(PathBuf, Path);
impl_cmp!(PathBuf, &'a Path);
impl_cmp!(Cow<'a, Path>, Path);
impl_cmp!(Cow<'a, Path>, &'b Path);
impl_cmp!(Cow<'a, Path>, PathBuf);

macro_rules! impl_cmp_os_str {
    ($lhs:ty, $rhs: ty) => {
        impl<'a, 'b> PartialEq<$rhs> for $lhs {
            #[inline]
            fn eq(&self, other: &$rhs) -> bool {
                <Path as PartialEq>::eq(self, other.as_ref())
            }
        }

        impl<'a, 'b> PartialEq<$lhs> for $rhs {
            #[inline]
            fn eq(&self, other: &$lhs) -> bool {
                <Path as PartialEq>::eq(self.as_ref(), other)
            }
        }

        impl<'a, 'b> PartialOrd<$rhs> for $lhs {
            #[inline]
            fn partial_cmp(&self, other: &$rhs) -> Option<Ordering> {
                <Path as PartialOrd>::partial_cmp(self, other.as_ref())
            }
        }

        impl<'a, 'b> PartialOrd<$lhs> for $rhs {
            #[inline]
            fn partial_cmp(&self, other: &$lhs) -> Option<Ordering> {
                <Path as PartialOrd>::partial_cmp(self.as_ref(), other)
            }
        }
    };
}

impl_cmp_os_str!(PathBuf, OsStr);
impl_cmp_os_str!(PathBuf, &'a OsStr);
impl_cmp_os_str!(PathBuf, Cow<'a, OsStr>);
impl_cmp_os_str!(PathBuf, OsString);
impl_cmp_os_str!(Path, OsStr);
impl_cmp_os_str!(Path, &'a OsStr);
impl_cmp_os_str!(Path, Cow<'a, OsStr>);
impl_cmp_os_str!(Path, OsString);
impl_cmp_os_str!(&'a Path, OsStr);
impl_cmp_os_str!(&'a Path, Cow<'b, OsStr>);
impl_cmp_os_str!(&'a Path, OsString);

impl<'a> From<&'a std::path::Path> for &'a Path {
    fn from(path: &'a std::path::Path) -> &'a Path {
        &Path::new(path.as_os_str())
    }
}

impl<'a> Into<&'a std::path::Path> for &'a Path {
    fn into(self) -> &'a std::path::Path {
        std::path::Path::new(&self.inner)
    }
}

impl AsRef<std::path::Path> for Path {
    fn as_ref(&self) -> &std::path::Path {
        self.into()
    }
}

impl AsRef<Path> for std::path::Path {
    fn as_ref(&self) -> &Path {
        self.into()
    }
}

impl AsRef<Path> for std::path::PathBuf {
    fn as_ref(&self) -> &Path {
        let p: &std::path::Path = self.as_ref();
        p.into()
    }
}
