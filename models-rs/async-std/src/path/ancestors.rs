use std::iter::FusedIterator;

use crate::path::Path;

/// An iterator over [`Path`] and its ancestors.
///
/// This `struct` is created by the [`ancestors`] method on [`Path`].
/// See its documentation for more.
///
/// # Examples
///
/// ```
/// use async_std::path::Path;
///
/// let path = Path::new("/foo/bar");
///
/// for ancestor in path.ancestors() {
///     println!("{}", ancestor.display());
/// }
/// ```
///
/// [`ancestors`]: struct.Path.html#method.ancestors
/// [`Path`]: struct.Path.html
#[derive(Copy, Clone, Debug)]
pub struct Ancestors<'a> {
    pub(crate) next: Option<&'a Path>,
}

impl<'a> Iterator for Ancestors<'a> {
    type Item = &'a Path;

    fn next(&mut self) -> Option<Self::Item> {
        let next = self.next;
        self.next = next.and_then(Path::parent);
        next
    }
}

impl FusedIterator for Ancestors<'_> {}
