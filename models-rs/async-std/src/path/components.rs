use std::ffi::OsStr;
use std::iter::FusedIterator;

use crate::path::{Component, Path};

/// An iterator over the [`Component`]s of a [`Path`].
///
/// This `struct` is created by the [`components`] method on [`Path`].
/// See its documentation for more.
///
/// # Examples
///
/// ```
/// use async_std::path::Path;
///
/// let path = Path::new("/tmp/foo/bar.txt");
///
/// for component in path.components() {
///     println!("{:?}", component);
/// }
/// ```
///
/// [`Component`]: enum.Component.html
/// [`components`]: struct.Path.html#method.components
/// [`Path`]: struct.Path.html
#[derive(Clone, Debug, PartialEq, Eq, PartialOrd, Ord)]
pub struct Components<'a> {
    pub(crate) inner: std::path::Components<'a>,
}

impl<'a> Components<'a> {
    /// Extracts a slice corresponding to the portion of the path remaining for iteration.
    ///
    /// # Examples
    ///
    /// ```
    /// use async_std::path::Path;
    ///
    /// let mut components = Path::new("/tmp/foo/bar.txt").components();
    /// components.next();
    /// components.next();
    ///
    /// assert_eq!(Path::new("foo/bar.txt"), components.as_path());
    /// ```
    pub fn as_path(&self) -> &'a Path {
        self.inner.as_path().into()
    }
}

impl AsRef<Path> for Components<'_> {
    fn as_ref(&self) -> &Path {
        self.as_path()
    }
}

impl AsRef<OsStr> for Components<'_> {
    fn as_ref(&self) -> &OsStr {
        self.as_path().as_os_str()
    }
}

impl<'a> Iterator for Components<'a> {
    type Item = Component<'a>;

    fn next(&mut self) -> Option<Component<'a>> {
        self.inner.next()
    }
}

impl<'a> DoubleEndedIterator for Components<'a> {
    fn next_back(&mut self) -> Option<Component<'a>> {
        self.inner.next_back()
    }
}

impl FusedIterator for Components<'_> {}

impl AsRef<Path> for Component<'_> {
    fn as_ref(&self) -> &Path {
        self.as_os_str().as_ref()
    }
}
