//! Cross-platform path manipulation.
//!
//! This module is an async version of [`std::path`].
//!
//! This module provides two types, [`PathBuf`] and [`Path`][`Path`] (akin to [`String`]
//! and [`str`]), for working with paths abstractly. These types are thin wrappers
//! around [`OsString`] and [`OsStr`] respectively, meaning that they work directly
//! on strings according to the local platform's path syntax.
//!
//! Paths can be parsed into [`Component`]s by iterating over the structure
//! returned by the [`components`] method on [`Path`]. [`Component`]s roughly
//! correspond to the substrings between path separators (`/` or `\`). You can
//! reconstruct an equivalent path from components with the [`push`] method on
//! [`PathBuf`]; note that the paths may differ syntactically by the
//! normalization described in the documentation for the [`components`] method.
//!
//! [`std::path`]: https://doc.rust-lang.org/std/path/index.html
//!
//! ## Simple usage
//!
//! Path manipulation includes both parsing components from slices and building
//! new owned paths.
//!
//! To parse a path, you can create a [`Path`] slice from a [`str`]
//! slice and start asking questions:
//!
//! ```
//! use async_std::path::Path;
//! use std::ffi::OsStr;
//!
//! let path = Path::new("/tmp/foo/bar.txt");
//!
//! let parent = path.parent();
//! assert_eq!(parent, Some(Path::new("/tmp/foo")));
//!
//! let file_stem = path.file_stem();
//! assert_eq!(file_stem, Some(OsStr::new("bar")));
//!
//! let extension = path.extension();
//! assert_eq!(extension, Some(OsStr::new("txt")));
//! ```
//!
//! To build or modify paths, use [`PathBuf`]:
//!
//! ```
//! use async_std::path::PathBuf;
//!
//! // This way works...
//! let mut path = PathBuf::from("c:\\");
//!
//! path.push("windows");
//! path.push("system32");
//!
//! path.set_extension("dll");
//!
//! // ... but push is best used if you don't know everything up
//! // front. If you do, this way is better:
//! let path: PathBuf = ["c:\\", "windows", "system32.dll"].iter().collect();
//! ```
//!
//! [`Component`]: enum.Component.html
//! [`components`]: struct.Path.html#method.components
//! [`PathBuf`]: struct.PathBuf.html
//! [`Path`]: struct.Path.html
//! [`push`]: struct.PathBuf.html#method.push
//! [`String`]: https://doc.rust-lang.org/std/string/struct.String.html
//!
//! [`str`]: https://doc.rust-lang.org/std/primitive.str.html
//! [`OsString`]: https://doc.rust-lang.org/std/ffi/struct.OsString.html
//! [`OsStr`]: https://doc.rust-lang.org/std/ffi/struct.OsStr.html

mod ancestors;
mod components;
mod iter;
mod path;
mod pathbuf;

#[doc(inline)]
pub use std::path::{
    is_separator, Component, Display, Prefix, PrefixComponent, StripPrefixError, MAIN_SEPARATOR,
};

pub use ancestors::Ancestors;
pub use components::Components;
pub use iter::Iter;
pub use path::Path;
pub use pathbuf::PathBuf;
