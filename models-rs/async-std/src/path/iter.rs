use std::ffi::OsStr;
use std::fmt;
use std::iter::FusedIterator;

use crate::path::{Component, Components, Path};

/// An iterator over the [`Component`]s of a [`Path`], as [`OsStr`] slices.
///
/// This `struct` is created by the [`iter`] method on [`Path`].
/// See its documentation for more.
///
/// [`Component`]: enum.Component.html
/// [`iter`]: struct.Path.html#method.iter
/// [`OsStr`]: ../../std/ffi/struct.OsStr.html
/// [`Path`]: struct.Path.html
#[derive(Clone)]
pub struct Iter<'a> {
    pub(crate) inner: Components<'a>,
}

impl<'a> Iter<'a> {
    /// Extracts a slice corresponding to the portion of the path remaining for iteration.
    ///
    /// # Examples
    ///
    /// ```
    /// use async_std::path::Path;
    ///
    /// let mut iter = Path::new("/tmp/foo/bar.txt").iter();
    /// iter.next();
    /// iter.next();
    ///
    /// assert_eq!(Path::new("foo/bar.txt"), iter.as_path());
    /// ```
    pub fn as_path(&self) -> &'a Path {
        self.inner.as_path()
    }
}

impl<'a> Iterator for Iter<'a> {
    type Item = &'a OsStr;

    fn next(&mut self) -> Option<&'a OsStr> {
        self.inner.next().map(Component::as_os_str)
    }
}

impl fmt::Debug for Iter<'_> {
    fn fmt(&self, f: &mut fmt::Formatter<'_>) -> fmt::Result {
        struct DebugHelper<'a>(&'a Path);

        impl fmt::Debug for DebugHelper<'_> {
            fn fmt(&self, f: &mut fmt::Formatter<'_>) -> fmt::Result {
                f.debug_list().entries(self.0.iter()).finish()
            }
        }

        f.debug_tuple("Iter")
            .field(&DebugHelper(self.as_path()))
            .finish()
    }
}

impl AsRef<Path> for Iter<'_> {
    fn as_ref(&self) -> &Path {
        self.as_path()
    }
}

impl AsRef<OsStr> for Iter<'_> {
    fn as_ref(&self) -> &OsStr {
        self.as_path().as_os_str()
    }
}

impl<'a> DoubleEndedIterator for Iter<'a> {
    fn next_back(&mut self) -> Option<&'a OsStr> {
        self.inner.next_back().map(Component::as_os_str)
    }
}

impl FusedIterator for Iter<'_> {}
