use std::borrow::{Borrow, Cow};
use std::ffi::{OsStr, OsString};
use std::iter::{self, FromIterator};
use std::ops::Deref;
#[cfg(feature = "never_enabled")]
use std::pin::Pin;
use std::rc::Rc;
use std::str::FromStr;
use std::sync::Arc;

use crate::path::Path;
#[cfg(feature = "never_enabled")]
use crate::prelude::*;
#[cfg(feature = "never_enabled")]
use crate::stream::{self, FromStream, IntoStream};

/// This struct is an async version of [`std::path::PathBuf`].
///
/// [`std::path::Path`]: https://doc.rust-lang.org/std/path/struct.PathBuf.html
#[derive(Clone, Debug, Default, PartialEq, Eq, PartialOrd, Ord, Hash)]
pub struct PathBuf {
    inner: std::path::PathBuf,
}

impl PathBuf {
    /// Allocates an empty `PathBuf`.
    ///
    /// # Examples
    ///
    /// ```
    /// use async_std::path::PathBuf;
    ///
    /// let path = PathBuf::new();
    /// ```
    pub fn new() -> PathBuf {
        std::path::PathBuf::new().into()
    }

    /// Coerces to a [`Path`] slice.
    ///
    /// [`Path`]: struct.Path.html
    ///
    /// # Examples
    ///
    /// ```
    /// use async_std::path::{Path, PathBuf};
    ///
    /// let p = PathBuf::from("/test");
    /// assert_eq!(Path::new("/test"), p.as_path());
    /// ```
    pub fn as_path(&self) -> &Path {
        self.inner.as_path().into()
    }

    /// Extends `self` with `path`.
    ///
    /// If `path` is absolute, it replaces the current path.
    ///
    /// On Windows:
    ///
    /// * if `path` has a root but no prefix (e.g., `\windows`), it
    ///   replaces everything except for the prefix (if any) of `self`.
    /// * if `path` has a prefix but no root, it replaces `self`.
    ///
    /// # Examples
    ///
    /// Pushing a relative path extends the existing path:
    ///
    /// ```
    /// use async_std::path::PathBuf;
    ///
    /// let mut path = PathBuf::from("/tmp");
    /// path.push("file.bk");
    /// assert_eq!(path, PathBuf::from("/tmp/file.bk"));
    /// ```
    ///
    /// Pushing an absolute path replaces the existing path:
    ///
    /// ```
    /// use async_std::path::PathBuf;
    ///
    /// let mut path = PathBuf::from("/tmp");
    /// path.push("/etc");
    /// assert_eq!(path, PathBuf::from("/etc"));
    /// ```
    pub fn push<P: AsRef<Path>>(&mut self, path: P) {
        self.inner.push(path.as_ref())
    }

    /// Truncates `self` to [`self.parent`].
    ///
    /// Returns `false` and does nothing if [`self.parent`] is [`None`].
    /// Otherwise, returns `true`.
    ///
    /// [`None`]: https://doc.rust-lang.org/std/option/enum.Option.html#variant.None
    /// [`self.parent`]: struct.PathBuf.html#method.parent
    ///
    /// # Examples
    ///
    /// ```
    /// use async_std::path::{Path, PathBuf};
    ///
    /// let mut p = PathBuf::from("/test/test.rs");
    ///
    /// p.pop();
    /// assert_eq!(Path::new("/test"), p);
    /// p.pop();
    /// assert_eq!(Path::new("/"), p);
    /// ```
    pub fn pop(&mut self) -> bool {
        self.inner.pop()
    }

    /// Updates [`self.file_name`] to `file_name`.
    ///
    /// If [`self.file_name`] was [`None`], this is equivalent to pushing
    /// `file_name`.
    ///
    /// Otherwise it is equivalent to calling [`pop`] and then pushing
    /// `file_name`. The new path will be a sibling of the original path.
    /// (That is, it will have the same parent.)
    ///
    /// [`self.file_name`]: struct.PathBuf.html#method.file_name
    /// [`None`]: https://doc.rust-lang.org/std/option/enum.Option.html#variant.None
    /// [`pop`]: struct.PathBuf.html#method.pop
    ///
    /// # Examples
    ///
    /// ```
    /// use async_std::path::PathBuf;
    ///
    /// let mut buf = PathBuf::from("/");
    /// assert!(buf.file_name() == None);
    /// buf.set_file_name("bar");
    /// assert!(buf == PathBuf::from("/bar"));
    /// assert!(buf.file_name().is_some());
    /// buf.set_file_name("baz.txt");
    /// assert!(buf == PathBuf::from("/baz.txt"));
    /// ```
    pub fn set_file_name<S: AsRef<OsStr>>(&mut self, file_name: S) {
        self.inner.set_file_name(file_name)
    }

    /// Updates [`self.extension`] to `extension`.
    ///
    /// Returns `false` and does nothing if [`self.file_name`] is [`None`],
    /// returns `true` and updates the extension otherwise.
    ///
    /// If [`self.extension`] is [`None`], the extension is added; otherwise
    /// it is replaced.
    ///
    /// [`self.file_name`]: struct.PathBuf.html#method.file_name
    /// [`self.extension`]: struct.PathBuf.html#method.extension
    /// [`None`]: https://doc.rust-lang.org/std/option/enum.Option.html#variant.None
    ///
    /// # Examples
    ///
    /// ```
    /// use async_std::path::{Path, PathBuf};
    ///
    /// let mut p = PathBuf::from("/feel/the");
    ///
    /// p.set_extension("force");
    /// assert_eq!(Path::new("/feel/the.force"), p.as_path());
    ///
    /// p.set_extension("dark_side");
    /// assert_eq!(Path::new("/feel/the.dark_side"), p.as_path());
    /// ```
    pub fn set_extension<S: AsRef<OsStr>>(&mut self, extension: S) -> bool {
        self.inner.set_extension(extension)
    }

    /// Consumes the `PathBuf`, returning its internal [`OsString`] storage.
    ///
    /// [`OsString`]: https://doc.rust-lang.org/std/ffi/struct.OsString.html
    ///
    /// # Examples
    ///
    /// ```
    /// use async_std::path::PathBuf;
    ///
    /// let p = PathBuf::from("/the/head");
    /// let os_str = p.into_os_string();
    /// ```
    pub fn into_os_string(self) -> OsString {
        self.inner.into_os_string()
    }

    /// Converts this `PathBuf` into a [boxed][`Box`] [`Path`].
    ///
    /// [`Box`]: https://doc.rust-lang.org/std/boxed/struct.Box.html
    /// [`Path`]: struct.Path.html
    pub fn into_boxed_path(self) -> Box<Path> {
        let rw = Box::into_raw(self.inner.into_boxed_path()) as *mut Path;
        unsafe { Box::from_raw(rw) }
    }
}

impl From<Box<Path>> for PathBuf {
    fn from(boxed: Box<Path>) -> PathBuf {
        boxed.into_path_buf()
    }
}

impl From<PathBuf> for Box<Path> {
    fn from(p: PathBuf) -> Box<Path> {
        p.into_boxed_path()
    }
}

impl Clone for Box<Path> {
    #[inline]
    fn clone(&self) -> Self {
        self.to_path_buf().into_boxed_path()
    }
}

impl<T: ?Sized + AsRef<OsStr>> From<&T> for PathBuf {
    fn from(s: &T) -> PathBuf {
        PathBuf::from(s.as_ref().to_os_string())
    }
}

impl From<OsString> for PathBuf {
    fn from(s: OsString) -> PathBuf {
        PathBuf { inner: s.into() }
    }
}

impl From<PathBuf> for OsString {
    fn from(path_buf: PathBuf) -> OsString {
        path_buf.inner.into()
    }
}

impl From<String> for PathBuf {
    fn from(s: String) -> PathBuf {
        PathBuf::from(OsString::from(s))
    }
}

impl FromStr for PathBuf {
    type Err = core::convert::Infallible;

    fn from_str(s: &str) -> Result<Self, Self::Err> {
        Ok(PathBuf::from(s))
    }
}

impl<P: AsRef<Path>> FromIterator<P> for PathBuf {
    fn from_iter<I: IntoIterator<Item = P>>(iter: I) -> PathBuf {
        let mut buf = PathBuf::new();
        buf.extend(iter);
        buf
    }
}

impl<P: AsRef<Path>> iter::Extend<P> for PathBuf {
    fn extend<I: IntoIterator<Item = P>>(&mut self, iter: I) {
        iter.into_iter().for_each(move |p| self.push(p.as_ref()));
    }
}

impl Deref for PathBuf {
    type Target = Path;

    fn deref(&self) -> &Path {
        Path::new(&self.inner)
    }
}

impl Borrow<Path> for PathBuf {
    fn borrow(&self) -> &Path {
        self.deref()
    }
}

impl<'a> From<PathBuf> for Cow<'a, Path> {
    #[inline]
    fn from(s: PathBuf) -> Cow<'a, Path> {
        Cow::Owned(s)
    }
}

impl<'a> From<&'a PathBuf> for Cow<'a, Path> {
    #[inline]
    fn from(p: &'a PathBuf) -> Cow<'a, Path> {
        Cow::Borrowed(p.as_path())
    }
}

impl<'a> From<Cow<'a, Path>> for PathBuf {
    #[inline]
    fn from(p: Cow<'a, Path>) -> Self {
        p.into_owned()
    }
}

impl From<PathBuf> for Arc<Path> {
    #[inline]
    fn from(s: PathBuf) -> Arc<Path> {
        let arc: Arc<OsStr> = Arc::from(s.into_os_string());
        unsafe { Arc::from_raw(Arc::into_raw(arc) as *const Path) }
    }
}

impl From<PathBuf> for Rc<Path> {
    #[inline]
    fn from(s: PathBuf) -> Rc<Path> {
        let rc: Rc<OsStr> = Rc::from(s.into_os_string());
        unsafe { Rc::from_raw(Rc::into_raw(rc) as *const Path) }
    }
}

impl AsRef<OsStr> for PathBuf {
    fn as_ref(&self) -> &OsStr {
        self.inner.as_ref()
    }
}

#[cfg(feature = "never_enabled")]
impl<P: AsRef<Path>> stream::Extend<P> for PathBuf {
    fn extend<'a, S: IntoStream<Item = P> + 'a>(
        &'a mut self,
        stream: S,
    ) -> Pin<Box<dyn Future<Output = ()> + 'a + Send>>
    where
        <S as IntoStream>::IntoStream: Send,
    {
        let stream = stream.into_stream();

        Box::pin(async move {
            pin_utils::pin_mut!(stream);

            while let Some(item) = stream.next().await {
                self.push(item.as_ref());
            }
        })
    }
}

#[cfg(feature = "never_enabled")]
impl<'b, P: AsRef<Path> + 'b + Send> FromStream<P> for PathBuf {
    #[inline]
    fn from_stream<'a, S: IntoStream<Item = P> + 'a>(
        stream: S,
    ) -> Pin<Box<dyn Future<Output = Self> + 'a + Send>>
    where
        <S as IntoStream>::IntoStream: Send,
    {
        let stream = stream.into_stream();

        Box::pin(async move {
            let mut out = Self::new();
            stream::extend(&mut out, stream).await;
            out
        })
    }
}

impl From<std::path::PathBuf> for PathBuf {
    fn from(path: std::path::PathBuf) -> PathBuf {
        PathBuf { inner: path }
    }
}

impl Into<std::path::PathBuf> for PathBuf {
    fn into(self) -> std::path::PathBuf {
        self.inner
    }
}

impl AsRef<std::path::Path> for PathBuf {
    fn as_ref(&self) -> &std::path::Path {
        self.inner.as_ref()
    }
}
