//! async_std::fs over the real file system, executed synchronously.
use crate::io;
use crate::path::{Path, PathBuf};
use std::task::Poll;
pub use std::fs::Metadata;
use std::future::Future;
use std::pin::Pin;
use std::task::Context;

struct FsGate;
impl Future for FsGate {
    type Output = ();
    fn poll(self: Pin<&mut Self>, _cx: &mut Context<'_>) -> Poll<()> {
        if zx_rt::fs_may_proceed() {
            Poll::Ready(())
        } else {
            Poll::Pending
        }
    }
}
pub struct ReadDir;
fn sp<P: AsRef<Path>>(p: &P) -> std::path::PathBuf {
    let p: &std::path::Path = p.as_ref().into();
    p.to_path_buf()
}
pub async fn metadata<P: AsRef<Path>>(p: P) -> io::Result<Metadata> {
    FsGate.await;
    std::fs::metadata(sp(&p))
}
pub async fn symlink_metadata<P: AsRef<Path>>(p: P) -> io::Result<Metadata> {
    std::fs::symlink_metadata(sp(&p))
}
pub async fn canonicalize<P: AsRef<Path>>(p: P) -> io::Result<PathBuf> {
    std::fs::canonicalize(sp(&p)).map(|x| x.into())
}
pub async fn read_link<P: AsRef<Path>>(p: P) -> io::Result<PathBuf> {
    std::fs::read_link(sp(&p)).map(|x| x.into())
}
pub async fn read_dir<P: AsRef<Path>>(_p: P) -> io::Result<ReadDir> {
    Err(io::Error::from(io::ErrorKind::Other))
}
pub async fn remove_file<P: AsRef<Path>>(p: P) -> io::Result<()> {
    zx_rt::log(&format!("fs remove_file {}", sp(&p).display()));
    std::fs::remove_file(sp(&p))
}
pub async fn remove_dir_all<P: AsRef<Path>>(p: P) -> io::Result<()> {
    zx_rt::log(&format!("fs remove_dir_all {}", sp(&p).display()));
    std::fs::remove_dir_all(sp(&p))
}
pub async fn create_dir<P: AsRef<Path>>(p: P) -> io::Result<()> {
    zx_rt::log(&format!("fs create_dir {}", sp(&p).display()));
    std::fs::create_dir(sp(&p))
}
pub struct File(std::fs::File);
impl File {
    pub async fn open<P: AsRef<Path>>(p: P) -> io::Result<File> {
        std::fs::File::open(sp(&p)).map(File)
    }
}
impl io::Read for File {
    fn poll_read(&mut self, buf: &mut [u8]) -> Poll<io::Result<usize>> {
        use std::io::Read;
        let lim = zx_rt::rt().short_read;
        let n = if lim != 0 && lim < buf.len() { lim } else { buf.len() };
        Poll::Ready(self.0.read(&mut buf[..n]))
    }
}
