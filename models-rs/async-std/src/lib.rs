//! Verification model of the async-std API surface zinoma uses (deterministic, single-threaded; see zx-rt).
#![allow(dead_code, unused)]
pub mod channel;
pub mod fs;
pub mod io;
pub mod path;
pub mod prelude;
pub mod sync;
pub mod stream {
    pub use futures_core::Stream;
}
pub mod task;
