use std::future::Future;
use std::pin::Pin;
use std::task::{Context, Poll};
pub use std::future::Future as _;
pub trait StreamExt: futures_core::Stream {
    fn next(&mut self) -> NextFuture<'_, Self> where Self: Unpin { NextFuture { s: self } }
}
impl<S: futures_core::Stream + ?Sized> StreamExt for S {}
pub struct NextFuture<'a, S: ?Sized> { s: &'a mut S }
impl<'a, S: ?Sized> Unpin for NextFuture<'a, S> {}
impl<'a, S: futures_core::Stream + Unpin + ?Sized> Future for NextFuture<'a, S> {
    type Output = Option<S::Item>;
    fn poll(mut self: Pin<&mut Self>, cx: &mut Context<'_>) -> Poll<Self::Output> { Pin::new(&mut *self.s).poll_next(cx) }
}
pub use crate::io::ReadExt;
