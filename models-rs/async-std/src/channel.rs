use std::cell::RefCell;
use std::collections::VecDeque;
use std::future::Future;
use std::pin::Pin;
use std::rc::Rc;
use std::task::{Context, Poll};

struct Chan<T> {
    q: VecDeque<T>,
    cap: usize,
    senders: usize,
    receivers: usize,
    id: String,
}
pub struct Sender<T>(Rc<RefCell<Chan<T>>>);
pub struct Receiver<T>(Rc<RefCell<Chan<T>>>);
unsafe impl<T> Send for Sender<T> {}
unsafe impl<T> Sync for Sender<T> {}
unsafe impl<T> Send for Receiver<T> {}
unsafe impl<T> Sync for Receiver<T> {}

fn mk<T>(cap: usize) -> (Sender<T>, Receiver<T>) {
    // the capacity clamp (schedule directive `cap`) scales bounded channels only: an unbounded channel never blocks
    let ov = zx_rt::rt().cap_override;
    let cap = if ov != 0 && cap != usize::MAX && cap > ov { ov } else { cap };
    let id = zx_rt::new_chan_id();
    zx_rt::log(&format!("chan {} cap={}", id, cap));
    let c = Rc::new(RefCell::new(Chan { q: VecDeque::new(), cap, senders: 1, receivers: 1, id }));
    (Sender(c.clone()), Receiver(c))
}
pub fn bounded<T>(cap: usize) -> (Sender<T>, Receiver<T>) {
    assert!(cap > 0, "capacity cannot be zero");
    mk(cap)
}
pub fn unbounded<T>() -> (Sender<T>, Receiver<T>) {
    mk(usize::MAX)
}

#[derive(Debug)]
pub struct SendError<T>(pub T);
#[derive(Debug)]
pub enum TrySendError<T> {
    Full(T),
    Closed(T),
}
#[derive(Debug)]
pub struct RecvError;
#[derive(Debug)]
pub enum TryRecvError {
    Empty,
    Closed,
}
impl std::fmt::Display for RecvError {
    fn fmt(&self, f: &mut std::fmt::Formatter<'_>) -> std::fmt::Result {
        f.write_str("receiving from an empty and closed channel")
    }
}
impl std::error::Error for RecvError {}
impl<T> std::fmt::Display for SendError<T> {
    fn fmt(&self, f: &mut std::fmt::Formatter<'_>) -> std::fmt::Result {
        f.write_str("sending into a closed channel")
    }
}

impl<T> Clone for Sender<T> {
    fn clone(&self) -> Self {
        self.0.borrow_mut().senders += 1;
        Sender(self.0.clone())
    }
}
impl<T> Clone for Receiver<T> {
    fn clone(&self) -> Self {
        self.0.borrow_mut().receivers += 1;
        Receiver(self.0.clone())
    }
}
impl<T> Drop for Sender<T> {
    fn drop(&mut self) {
        let mut c = self.0.borrow_mut();
        c.senders -= 1;
        if c.senders == 0 {
            zx_rt::log(&format!("chan {} senders_gone", c.id));
            zx_rt::bump();
        }
    }
}
impl<T> Drop for Receiver<T> {
    fn drop(&mut self) {
        let mut c = self.0.borrow_mut();
        c.receivers -= 1;
        if c.receivers == 0 {
            zx_rt::log(&format!("chan {} receivers_gone", c.id));
            zx_rt::bump();
        }
    }
}

impl<T> Sender<T> {
    pub fn try_send(&self, msg: T) -> Result<(), TrySendError<T>> {
        let mut c = self.0.borrow_mut();
        if c.receivers == 0 {
            zx_rt::log(&format!("send {} closed", c.id));
            return Err(TrySendError::Closed(msg));
        }
        if c.q.len() >= c.cap {
            return Err(TrySendError::Full(msg));
        }
        c.q.push_back(msg);
        zx_rt::log(&format!("send {} ok len={}", c.id, c.q.len()));
        zx_rt::bump();
        Ok(())
    }
    pub fn send(&self, msg: T) -> SendFut<'_, T> {
        SendFut { s: self, msg: Some(msg), logged: false }
    }
    pub fn len(&self) -> usize {
        self.0.borrow().q.len()
    }
    pub fn is_full(&self) -> bool {
        let c = self.0.borrow();
        c.q.len() >= c.cap
    }
    pub fn is_empty(&self) -> bool {
        self.0.borrow().q.is_empty()
    }
    pub fn is_closed(&self) -> bool {
        self.0.borrow().receivers == 0
    }
}
pub struct SendFut<'a, T> {
    s: &'a Sender<T>,
    msg: Option<T>,
    logged: bool,
}
impl<'a, T> Unpin for SendFut<'a, T> {}
impl<'a, T> Future for SendFut<'a, T> {
    type Output = Result<(), SendError<T>>;
    fn poll(mut self: Pin<&mut Self>, _cx: &mut Context<'_>) -> Poll<Self::Output> {
        let msg = self.msg.take().expect("SendFut polled after completion");
        match self.s.try_send(msg) {
            Ok(()) => Poll::Ready(Ok(())),
            Err(TrySendError::Closed(m)) => Poll::Ready(Err(SendError(m))),
            Err(TrySendError::Full(m)) => {
                self.msg = Some(m);
                if !self.logged {
                    self.logged = true;
                    zx_rt::log(&format!("send {} blocked task={}", self.s.0.borrow().id, zx_rt::rt().cur_task));
                }
                Poll::Pending
            }
        }
    }
}
impl<T> Receiver<T> {
    fn try_pop(&self) -> Option<T> {
        let id = self.0.borrow().id.clone();
        if !zx_rt::recv_allowed(&id) {
            return None;
        }
        let r = self.0.borrow_mut().q.pop_front();
        if r.is_some() {
            zx_rt::log(&format!("recv {} task={}", id, zx_rt::rt().cur_task));
            zx_rt::recv_consumed(&id);
        }
        r
    }
    fn closed_and_empty(&self) -> bool {
        let c = self.0.borrow();
        c.senders == 0 && c.q.is_empty()
    }
    pub fn recv(&self) -> RecvFut<'_, T> {
        RecvFut { r: self }
    }
    pub fn try_recv(&self) -> Result<T, TryRecvError> {
        match self.try_pop() {
            Some(v) => Ok(v),
            None => {
                if self.closed_and_empty() {
                    Err(TryRecvError::Closed)
                } else {
                    Err(TryRecvError::Empty)
                }
            }
        }
    }
    pub fn len(&self) -> usize {
        self.0.borrow().q.len()
    }
    pub fn is_empty(&self) -> bool {
        self.0.borrow().q.is_empty()
    }
}
pub struct RecvFut<'a, T> {
    r: &'a Receiver<T>,
}
impl<'a, T> Future for RecvFut<'a, T> {
    type Output = Result<T, RecvError>;
    fn poll(self: Pin<&mut Self>, _cx: &mut Context<'_>) -> Poll<Self::Output> {
        match self.r.try_pop() {
            Some(v) => Poll::Ready(Ok(v)),
            None => {
                if self.r.closed_and_empty() {
                    Poll::Ready(Err(RecvError))
                } else {
                    Poll::Pending
                }
            }
        }
    }
}
impl<T> futures_core::Stream for Receiver<T> {
    type Item = T;
    fn poll_next(self: Pin<&mut Self>, _cx: &mut Context<'_>) -> Poll<Option<T>> {
        match self.try_pop() {
            Some(v) => Poll::Ready(Some(v)),
            None => {
                if self.closed_and_empty() {
                    Poll::Ready(None)
                } else {
                    Poll::Pending
                }
            }
        }
    }
}
