use std::future::Future;
use std::pin::Pin;
use std::task::{Context, Poll};
#[derive(Debug)]
pub struct Error;
impl std::fmt::Display for Error {
    fn fmt(&self, f: &mut std::fmt::Formatter<'_>) -> std::fmt::Result {
        f.write_str("ctrlc")
    }
}
impl std::error::Error for Error {}
pub struct CtrlC;
impl CtrlC {
    pub fn new() -> Result<Self, Error> {
        Ok(CtrlC)
    }
}
impl Future for CtrlC {
    type Output = ();
    fn poll(self: Pin<&mut Self>, _cx: &mut Context<'_>) -> Poll<()> {
        if zx_rt::rt().ctrlc {
            zx_rt::bump();
            Poll::Ready(())
        } else {
            Poll::Pending
        }
    }
}
