use std::alloc::{GlobalAlloc, Layout, System};
pub struct Jemalloc;
unsafe impl GlobalAlloc for Jemalloc {
    unsafe fn alloc(&self, l: Layout) -> *mut u8 { System.alloc(l) }
    unsafe fn dealloc(&self, p: *mut u8, l: Layout) { System.dealloc(p, l) }
}
