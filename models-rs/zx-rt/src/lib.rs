//! Deterministic single-threaded runtime behind the model crates (async-std, async-process, notify,
//! async-ctrlc) used to replay solver-found schedules against the real zinoma code.
//! The schedule (ZX_SCHEDULE, text lines) decides every poll, which channel may deliver, when a virtual
//! process exits and with which code, when the signal / a file notification arrives, and where to crash.
//! Every observable event is appended to ZX_LOG.
#![allow(dead_code, static_mut_refs)]
use std::future::Future;
use std::io::Write;
use std::path::PathBuf;
use std::pin::Pin;
use std::task::{Context, Poll, RawWaker, RawWakerVTable, Waker};

pub type TaskFut = Pin<Box<dyn Future<Output = ()>>>;

#[derive(Clone, Copy, PartialEq, Eq, Debug)]
pub enum PState {
    Running,
    Exited(i32),
    Killed,
}

pub struct Proc {
    pub state: PState,
    pub reaped: bool,
    pub script: String,
    pub dir: String,
    pub task: usize,
}

pub struct Rt {
    pub tasks: Vec<Option<TaskFut>>,
    pub done: Vec<bool>,
    pub chan_count: Vec<usize>, // channels created per task
    pub cur_task: usize,
    pub allow_all: bool,
    pub allow: Option<(String, usize)>,
    pub procs: Vec<Proc>,
    pub watchers: Vec<Box<dyn FnMut(Vec<PathBuf>, bool)>>,
    pub watched: Vec<(usize, PathBuf)>,
    pub ctrlc: bool,
    /// kind of the file-system events delivered by the following `notify` steps (see the notify model)
    pub event_kind: u8,
    pub progress: u64,
    pub log: Option<std::fs::File>,
    pub cap_override: usize,
    pub fail_spawn: Vec<(usize, String)>,
    pub spawn_attempts: Vec<(String, usize)>,
    pub short_read: usize,
    pub controlled: bool,
}

static mut RT: Option<Rt> = None;

pub fn rt() -> &'static mut Rt {
    unsafe {
        if RT.is_none() {
            let log = std::env::var_os("ZX_LOG").map(|p| std::fs::OpenOptions::new().create(true).append(true).open(p).expect("open ZX_LOG"));
            RT = Some(Rt {
                tasks: Vec::new(),
                done: Vec::new(),
                chan_count: Vec::new(),
                cur_task: 0,
                allow_all: true,
                allow: None,
                procs: Vec::new(),
                watchers: Vec::new(),
                watched: Vec::new(),
                ctrlc: false,
                event_kind: 0,
                progress: 0,
                log,
                cap_override: std::env::var("ZX_CAP").ok().and_then(|v| v.parse().ok()).unwrap_or(0),
                fail_spawn: Vec::new(),
                spawn_attempts: Vec::new(),
                short_read: 0,
                controlled: std::env::var_os("ZX_SCHEDULE").is_some(),
            });
        }
        RT.as_mut().unwrap()
    }
}

pub fn log(line: &str) {
    let r = rt();
    if let Some(f) = r.log.as_mut() {
        let _ = writeln!(f, "{}", line);
    }
}

pub fn bump() {
    rt().progress += 1;
}

/// Should this spawn attempt of `script` fail (schedule directive `failspawn <k> <script>`)?
pub fn spawn_should_fail(script: &str) -> bool {
    let r = rt();
    let mut k = 0;
    let mut found = false;
    for (s, n) in r.spawn_attempts.iter_mut() {
        if s == script {
            k = *n;
            *n += 1;
            found = true;
        }
    }
    if !found {
        r.spawn_attempts.push((script.to_string(), 1));
    }
    r.fail_spawn.iter().any(|(i, s)| *i == k && s == script)
}

/// May a receive on channel `id` complete during the current poll?
pub fn recv_allowed(id: &str) -> bool {
    let r = rt();
    if r.allow_all {
        return true;
    }
    match &r.allow {
        Some((c, budget)) => chan_matches(c, id) && *budget > 0,
        None => false,
    }
}

fn chan_matches(spec: &str, id: &str) -> bool {
    if let Some(prefix) = spec.strip_suffix('*') {
        id.starts_with(prefix)
    } else {
        spec == id
    }
}

/// Directed polls that deliver a channel message do not let nested futures touch the file system: the first
/// environment interaction of a freshly created future (e.g. the build future's up-to-date check) yields, so that
/// "handle a message" and "first poll of the build future" are separate schedule steps, as in the SYS model.
pub fn fs_may_proceed() -> bool {
    let r = rt();
    r.allow_all || r.allow.is_none() || r.cur_task == 0
}

pub fn recv_consumed(id: &str) {
    let r = rt();
    if !r.allow_all {
        if let Some((c, budget)) = r.allow.as_mut() {
            if chan_matches(c, id) && *budget != usize::MAX {
                *budget -= 1;
            }
        }
    }
    bump();
}

pub fn new_chan_id() -> String {
    let r = rt();
    let t = r.cur_task;
    while r.chan_count.len() <= t {
        r.chan_count.push(0);
    }
    let k = r.chan_count[t];
    r.chan_count[t] += 1;
    format!("t{}.{}", t, k)
}

pub fn spawn_task(fut: TaskFut) -> usize {
    let r = rt();
    if r.tasks.is_empty() {
        // slot 0 is the main future driven by block_on
        r.tasks.push(None);
        r.done.push(false);
    }
    r.tasks.push(Some(fut));
    r.done.push(false);
    let id = r.tasks.len() - 1;
    log(&format!("spawn_task {} by {}", id, r.cur_task));
    bump();
    id
}

pub fn task_done(id: usize) -> bool {
    rt().done.get(id).copied().unwrap_or(false)
}

fn noop_waker() -> Waker {
    fn clone(_: *const ()) -> RawWaker {
        RawWaker::new(std::ptr::null(), &VT)
    }
    fn noop(_: *const ()) {}
    static VT: RawWakerVTable = RawWakerVTable::new(clone, noop, noop, noop);
    unsafe { Waker::from_raw(RawWaker::new(std::ptr::null(), &VT)) }
}

/// Poll task `id` once. Returns true when it completed.
fn poll_task(id: usize) -> bool {
    let r = rt();
    if id >= r.tasks.len() || r.done[id] {
        log(&format!("poll {} -> gone", id));
        return true;
    }
    let mut fut = match r.tasks[id].take() {
        Some(f) => f,
        None => {
            log(&format!("poll {} -> busy", id));
            return false;
        }
    };
    let prev = r.cur_task;
    r.cur_task = id;
    let w = noop_waker();
    let mut cx = Context::from_waker(&w);
    let before = r.progress;
    let res = fut.as_mut().poll(&mut cx);
    let r = rt();
    r.cur_task = prev;
    match res {
        Poll::Ready(()) => {
            r.done[id] = true;
            log(&format!("poll {} -> ready", id));
            bump();
            true
        }
        Poll::Pending => {
            r.tasks[id] = Some(fut);
            log(&format!("poll {} -> pending progress={}", id, r.progress - before));
            false
        }
    }
}

enum Step {
    Poll(usize, Option<String>, usize, bool),
    Exit(usize, i32),
    ExitScript(String, i32),
    Signal,
    Notify(usize, bool, Vec<PathBuf>),
    NotifyAll(Vec<PathBuf>),
    Crash(i32),
    Drain,
    EventKind(u8),
    Write(PathBuf, String),
    Remove(PathBuf),
}

fn parse_schedule() -> Vec<Step> {
    let mut out = Vec::new();
    let p = match std::env::var_os("ZX_SCHEDULE") {
        Some(p) => p,
        None => return out,
    };
    // paths in the schedule may be arbitrary bytes (file names that are not valid UTF-8)
    use std::os::unix::ffi::OsStrExt;
    let bytes = std::fs::read(p).expect("read ZX_SCHEDULE");
    for raw in bytes.split(|b| *b == b'\n') {
        let toks: Vec<&[u8]> = raw.split(|b| *b == b' ' || *b == b'\t').filter(|t| !t.is_empty()).collect();
        let lossy: Vec<String> = toks.iter().map(|t| String::from_utf8_lossy(t).to_string()).collect();
        let w: Vec<&str> = lossy.iter().map(|x| x.as_str()).collect();
        let path_at = |i: usize| PathBuf::from(std::ffi::OsStr::from_bytes(toks[i]));
        if w.is_empty() || w[0].starts_with('#') {
            continue;
        }
        match w[0] {
            "poll" => {
                let task: usize = w[1].parse().unwrap();
                let (chan, free) = match w.get(2).copied().unwrap_or("-") {
                    "-" => (None, false),
                    "*" => (None, true),
                    c => (Some(c.to_string()), false),
                };
                let budget = match w.get(3).copied().unwrap_or("1") {
                    "all" => usize::MAX,
                    b => b.parse().unwrap(),
                };
                out.push(Step::Poll(task, chan, budget, free));
            }
            "exit" => out.push(Step::Exit(w[1].parse().unwrap(), w[2].parse().unwrap())),
            "exitscript" => out.push(Step::ExitScript(w[2..].join(" "), w[1].parse().unwrap())),
            "signal" => out.push(Step::Signal),
            "notify" => out.push(Step::Notify(w[1].parse().unwrap(), w[2] == "err", (3..w.len()).map(|i| path_at(i)).collect())),
            "notifyall" => out.push(Step::NotifyAll((1..w.len()).map(|i| path_at(i)).collect())),
            "crash" => out.push(Step::Crash(w.get(1).map(|x| x.parse().unwrap()).unwrap_or(77))),
            "drain" => out.push(Step::Drain),
            "eventkind" => out.push(Step::EventKind(w[1].parse().unwrap())),
            "write" => out.push(Step::Write(path_at(1), w[2..].join(" "))),
            "remove" => out.push(Step::Remove(path_at(1))),
            "cap" => rt().cap_override = w[1].parse().unwrap(),
            "failspawn" => rt().fail_spawn.push((w[1].parse().unwrap(), w[2..].join(" "))),
            "shortread" => rt().short_read = w[1].parse().unwrap(),
            other => panic!("bad schedule line: {}", other),
        }
    }
    out
}

/// Unrestricted fair polling until nothing makes progress. Returns true when the main future finished.
fn drain<F: Future>(main: &mut Pin<Box<F>>, out: &mut Option<F::Output>) -> bool {
    let w = noop_waker();
    let mut cx = Context::from_waker(&w);
    loop {
        let r = rt();
        r.allow_all = true;
        let before = r.progress;
        if out.is_none() {
            r.cur_task = 0;
            if let Poll::Ready(v) = main.as_mut().poll(&mut cx) {
                *out = Some(v);
                log("main_done");
                return true;
            }
        }
        let n = rt().tasks.len();
        for id in 1..n {
            if !rt().done[id] {
                poll_task(id);
            }
        }
        if rt().progress == before {
            return out.is_some();
        }
    }
}

pub fn block_on<F: Future>(future: F) -> F::Output {
    let r = rt();
    if r.tasks.is_empty() {
        r.tasks.push(None);
        r.done.push(false);
    }
    let mut main = Box::pin(future);
    let mut out: Option<F::Output> = None;
    let w = noop_waker();
    let mut cx = Context::from_waker(&w);
    if !r.controlled {
        // free-running mode: poll everything round-robin; virtual processes exit with status 0 when nothing else moves
        loop {
            if drain(&mut main, &mut out) {
                let r = rt();
                let leaked: Vec<usize> = r.procs.iter().enumerate().filter(|(_, p)| !p.reaped).map(|(i, _)| i).collect();
                log(&format!("exit_procs_unreaped={:?}", leaked));
                return out.unwrap();
            }
            let r = rt();
            let mut moved = false;
            let never = std::env::var("ZX_HANG_SCRIPT").ok();
            for (i, p) in r.procs.iter_mut().enumerate() {
                if p.state == PState::Running {
                    if let Some(pat) = &never {
                        // this script takes arbitrarily long: it does not finish in this run
                        if p.script.contains(pat.as_str()) {
                            continue;
                        }
                    }
                    p.state = PState::Exited(0);
                    log(&format!("proc_exit p{} 0 (auto)", i));
                    moved = true;
                    break;
                }
            }
            if !moved {
                log("stuck");
                std::process::exit(98);
            }
            bump();
        }
    }
    let steps = parse_schedule();
    for st in steps {
        match st {
            Step::Poll(task, chan, budget, free) => {
                let r = rt();
                r.allow_all = free;
                r.allow = chan.clone().map(|c| (c, budget));
                log(&format!("step poll {} {}", task, chan.unwrap_or_else(|| if free { "*".into() } else { "-".into() })));
                if task == 0 {
                    if out.is_none() {
                        r.cur_task = 0;
                        let before = r.progress;
                        match main.as_mut().poll(&mut cx) {
                            Poll::Ready(v) => {
                                out = Some(v);
                                log("main_done");
                            }
                            Poll::Pending => log(&format!("poll 0 -> pending progress={}", rt().progress - before)),
                        }
                    } else {
                        log("poll 0 -> gone");
                    }
                } else {
                    poll_task(task);
                }
            }
            Step::Exit(p, code) => {
                let r = rt();
                if p < r.procs.len() && r.procs[p].state == PState::Running {
                    r.procs[p].state = PState::Exited(code);
                    log(&format!("proc_exit p{} {}", p, code));
                    bump();
                } else {
                    log(&format!("proc_exit p{} ignored", p));
                }
            }
            Step::ExitScript(pat, code) => {
                let r = rt();
                let mut found = false;
                for (i, p) in r.procs.iter_mut().enumerate() {
                    if p.state == PState::Running && p.script.contains(pat.as_str()) {
                        p.state = PState::Exited(code);
                        found = true;
                        log(&format!("proc_exit p{} {}", i, code));
                        bump();
                        break;
                    }
                }
                if !found {
                    log(&format!("proc_exit script={:?} ignored", pat));
                }
            }
            Step::Signal => {
                rt().ctrlc = true;
                log("signal");
                bump();
            }
            Step::Notify(wi, is_err, paths) => {
                let r = rt();
                log(&format!("notify w{} {} {:?}", wi, if is_err { "err" } else { "ok" }, paths));
                if wi < r.watchers.len() {
                    let mut h = std::mem::replace(&mut r.watchers[wi], Box::new(|_, _| {}));
                    h(paths, is_err);
                    rt().watchers[wi] = h;
                }
            }
            Step::NotifyAll(paths) => {
                // what a recursive file-system watch does: the event reaches every watcher one of whose watched paths covers it
                let n = rt().watchers.len();
                for wi in 0..n {
                    let covers = rt().watched.iter().any(|(w, root)| *w == wi && paths.iter().any(|p| p.starts_with(root)));
                    log(&format!("notifyall w{} covers={} {:?}", wi, covers, paths));
                    if covers {
                        let mut h = std::mem::replace(&mut rt().watchers[wi], Box::new(|_, _| {}));
                        h(paths.clone(), false);
                        rt().watchers[wi] = h;
                    }
                }
            }
            Step::EventKind(k) => {
                rt().event_kind = k;
                log(&format!("eventkind {}", k));
            }
            Step::Crash(code) => {
                log("crash");
                std::process::exit(code);
            }
            Step::Drain => {
                drain(&mut main, &mut out);
            }
            Step::Write(p, content) => {
                log(&format!("write {}", p.display()));
                std::fs::write(&p, content).expect("schedule write");
            }
            Step::Remove(p) => {
                log(&format!("remove {}", p.display()));
                let _ = std::fs::remove_file(&p);
            }
        }
        if out.is_some() {
            break;
        }
    }
    if out.is_none() {
        // after the schedule: run freely; report whether the program can still finish by itself
        log("schedule_end");
        if !drain(&mut main, &mut out) {
            let r = rt();
            let running: Vec<usize> = r.procs.iter().enumerate().filter(|(_, p)| p.state == PState::Running).map(|(i, _)| i).collect();
            log(&format!("stuck running_procs={:?}", running));
            std::process::exit(98);
        }
    }
    let r = rt();
    let leaked: Vec<usize> = r.procs.iter().enumerate().filter(|(_, p)| !p.reaped).map(|(i, _)| i).collect();
    log(&format!("exit_procs_unreaped={:?}", leaked));
    out.unwrap()
}
