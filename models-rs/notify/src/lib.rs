//! Model of notify 6: the event handler is registered with zx-rt and invoked by `notify` schedule steps.
//! `watch` on a path that does not exist returns ErrorKind::PathNotFound (documented contract).
#![allow(dead_code, unused)]
use std::path::{Path, PathBuf};
use std::time::Duration;
#[derive(Debug)]
pub enum ErrorKind {
    Generic(String),
    Io(std::io::Error),
    PathNotFound,
    WatchNotFound,
    InvalidConfig(Config),
    MaxFilesWatch,
}
#[derive(Debug)]
pub struct Error {
    pub kind: ErrorKind,
    pub paths: Vec<PathBuf>,
}
impl std::fmt::Display for Error {
    fn fmt(&self, f: &mut std::fmt::Formatter<'_>) -> std::fmt::Result {
        f.write_str("notify error")
    }
}
impl std::error::Error for Error {}
pub type Result<T> = std::result::Result<T, Error>;
#[derive(Debug, Clone, Copy, Default)]
pub struct Config {
    poll: Option<Duration>,
}
impl Config {
    pub fn with_poll_interval(mut self, d: Duration) -> Self {
        self.poll = Some(d);
        self
    }
}
#[derive(Debug, Clone, Copy)]
pub enum RecursiveMode {
    Recursive,
    NonRecursive,
}
/// notify 6 event classification (the public enums of `notify::event`)
pub mod event {
    #[derive(Debug, Clone, Copy, PartialEq, Eq, Hash)]
    pub enum AccessMode { Any, Execute, Read, Write, Other }
    #[derive(Debug, Clone, Copy, PartialEq, Eq, Hash)]
    pub enum AccessKind { Any, Read, Open(AccessMode), Close(AccessMode), Other }
    #[derive(Debug, Clone, Copy, PartialEq, Eq, Hash)]
    pub enum CreateKind { Any, File, Folder, Other }
    #[derive(Debug, Clone, Copy, PartialEq, Eq, Hash)]
    pub enum DataChange { Any, Size, Content, Other }
    #[derive(Debug, Clone, Copy, PartialEq, Eq, Hash)]
    pub enum MetadataKind { Any, AccessTime, WriteTime, Permissions, Ownership, Extended, Other }
    #[derive(Debug, Clone, Copy, PartialEq, Eq, Hash)]
    pub enum RenameMode { Any, To, From, Both, Other }
    #[derive(Debug, Clone, Copy, PartialEq, Eq, Hash)]
    pub enum ModifyKind { Any, Data(DataChange), Metadata(MetadataKind), Name(RenameMode), Other }
    #[derive(Debug, Clone, Copy, PartialEq, Eq, Hash)]
    pub enum RemoveKind { Any, File, Folder, Other }
    #[derive(Debug, Clone, Copy, PartialEq, Eq, Hash, Default)]
    pub enum EventKind {
        #[default]
        Any,
        Access(AccessKind),
        Create(CreateKind),
        Modify(ModifyKind),
        Remove(RemoveKind),
        Other,
    }
    impl EventKind {
        pub fn is_access(&self) -> bool { matches!(self, EventKind::Access(_)) }
        pub fn is_create(&self) -> bool { matches!(self, EventKind::Create(_)) }
        pub fn is_modify(&self) -> bool { matches!(self, EventKind::Modify(_)) }
        pub fn is_remove(&self) -> bool { matches!(self, EventKind::Remove(_)) }
        pub fn is_other(&self) -> bool { matches!(self, EventKind::Other) }
    }
    #[derive(Debug, Clone, Default, PartialEq, Eq, Hash)]
    pub struct EventAttributes;
    pub use super::Event;
    /// event kind selected by the schedule (`eventkind <code>`, default 0)
    pub fn kind_from_code(c: u8) -> EventKind {
        match c {
            1 => EventKind::Create(CreateKind::File),
            2 => EventKind::Remove(RemoveKind::File),
            3 => EventKind::Modify(ModifyKind::Name(RenameMode::From)),
            4 => EventKind::Modify(ModifyKind::Name(RenameMode::To)),
            5 => EventKind::Modify(ModifyKind::Name(RenameMode::Both)),
            6 => EventKind::Any,
            7 => EventKind::Modify(ModifyKind::Any),
            8 => EventKind::Create(CreateKind::Any),
            _ => EventKind::Modify(ModifyKind::Data(DataChange::Any)),
        }
    }
}
pub use event::EventKind;
#[derive(Debug, Clone, Default)]
pub struct Event {
    pub kind: EventKind,
    pub paths: Vec<PathBuf>,
    pub attrs: event::EventAttributes,
}
pub trait EventHandler: 'static {
    fn handle_event(&mut self, event: Result<Event>);
}
impl<F: FnMut(Result<Event>) + 'static> EventHandler for F {
    fn handle_event(&mut self, event: Result<Event>) {
        (self)(event)
    }
}
pub trait Watcher {
    fn new<F: EventHandler>(event_handler: F, config: Config) -> Result<Self>
    where
        Self: Sized;
    fn watch(&mut self, path: &Path, recursive_mode: RecursiveMode) -> Result<()>;
}
pub struct RecommendedWatcher {
    pub id: usize,
    pub watched: Vec<PathBuf>,
}
impl Watcher for RecommendedWatcher {
    fn new<F: EventHandler>(mut event_handler: F, _config: Config) -> Result<Self> {
        let rt = zx_rt::rt();
        let id = rt.watchers.len();
        rt.watchers.push(Box::new(move |paths: Vec<PathBuf>, is_err: bool| {
            if is_err {
                event_handler.handle_event(Err(Error { kind: ErrorKind::Generic("injected".into()), paths }));
            } else {
                event_handler.handle_event(Ok(Event { kind: event::kind_from_code(zx_rt::rt().event_kind), paths, attrs: Default::default() }));
            }
        }));
        zx_rt::log(&format!("watcher w{} task={}", id, rt.cur_task));
        Ok(Self { id, watched: Vec::new() })
    }
    fn watch(&mut self, path: &Path, _m: RecursiveMode) -> Result<()> {
        if !path.exists() {
            // back ends differ in how they report a missing path: PathNotFound (default here) or the wrapped io error (inotify)
            if std::env::var("ZX_NOTIFY_MISSING").map(|v| v == "io").unwrap_or(false) {
                zx_rt::log(&format!("watch w{} {} -> Io(NotFound)", self.id, path.display()));
                return Err(Error { kind: ErrorKind::Io(std::io::Error::from(std::io::ErrorKind::NotFound)), paths: vec![path.to_path_buf()] });
            }
            zx_rt::log(&format!("watch w{} {} -> PathNotFound", self.id, path.display()));
            return Err(Error { kind: ErrorKind::PathNotFound, paths: vec![path.to_path_buf()] });
        }
        zx_rt::log(&format!("watch w{} {}", self.id, path.display()));
        self.watched.push(path.to_path_buf());
        zx_rt::rt().watched.push((self.id, path.to_path_buf()));
        Ok(())
    }
}
