//! Model of notify 6: the event handler is registered with zx-rt and invoked by `notify` schedule steps.
//! `watch` on a path that does not exist returns ErrorKind::PathNotFound (documented contract).
#![allow(dead_code, unused)]
use std::path::{Path, PathBuf};
use std::time::Duration;
#[derive(Debug)]
pub enum ErrorKind {
    Generic(String),
    Io(std::io::Error),
    PathNotFound,
    WatchNotFound,
    InvalidConfig(Config),
    MaxFilesWatch,
}
#[derive(Debug)]
pub struct Error {
    pub kind: ErrorKind,
    pub paths: Vec<PathBuf>,
}
impl std::fmt::Display for Error {
    fn fmt(&self, f: &mut std::fmt::Formatter<'_>) -> std::fmt::Result {
        f.write_str("notify error")
    }
}
impl std::error::Error for Error {}
pub type Result<T> = std::result::Result<T, Error>;
#[derive(Debug, Clone, Copy, Default)]
pub struct Config {
    poll: Option<Duration>,
}
impl Config {
    pub fn with_poll_interval(mut self, d: Duration) -> Self {
        self.poll = Some(d);
        self
    }
}
#[derive(Debug, Clone, Copy)]
pub enum RecursiveMode {
    Recursive,
    NonRecursive,
}
#[derive(Debug, Clone, Default)]
pub struct Event {
    pub paths: Vec<PathBuf>,
}
pub trait EventHandler: 'static {
    fn handle_event(&mut self, event: Result<Event>);
}
impl<F: FnMut(Result<Event>) + 'static> EventHandler for F {
    fn handle_event(&mut self, event: Result<Event>) {
        (self)(event)
    }
}
pub trait Watcher {
    fn new<F: EventHandler>(event_handler: F, config: Config) -> Result<Self>
    where
        Self: Sized;
    fn watch(&mut self, path: &Path, recursive_mode: RecursiveMode) -> Result<()>;
}
pub struct RecommendedWatcher {
    pub id: usize,
    pub watched: Vec<PathBuf>,
}
impl Watcher for RecommendedWatcher {
    fn new<F: EventHandler>(mut event_handler: F, _config: Config) -> Result<Self> {
        let rt = zx_rt::rt();
        let id = rt.watchers.len();
        rt.watchers.push(Box::new(move |paths: Vec<PathBuf>, is_err: bool| {
            if is_err {
                event_handler.handle_event(Err(Error { kind: ErrorKind::Generic("injected".into()), paths }));
            } else {
                event_handler.handle_event(Ok(Event { paths }));
            }
        }));
        zx_rt::log(&format!("watcher w{} task={}", id, rt.cur_task));
        Ok(Self { id, watched: Vec::new() })
    }
    fn watch(&mut self, path: &Path, _m: RecursiveMode) -> Result<()> {
        if !path.exists() {
            // back ends differ in how they report a missing path: PathNotFound (default here) or the wrapped io error (inotify)
            if std::env::var("ZX_NOTIFY_MISSING").map(|v| v == "io").unwrap_or(false) {
                zx_rt::log(&format!("watch w{} {} -> Io(NotFound)", self.id, path.display()));
                return Err(Error { kind: ErrorKind::Io(std::io::Error::from(std::io::ErrorKind::NotFound)), paths: vec![path.to_path_buf()] });
            }
            zx_rt::log(&format!("watch w{} {} -> PathNotFound", self.id, path.display()));
            return Err(Error { kind: ErrorKind::PathNotFound, paths: vec![path.to_path_buf()] });
        }
        zx_rt::log(&format!("watch w{} {}", self.id, path.display()));
        self.watched.push(path.to_path_buf());
        zx_rt::rt().watched.push((self.id, path.to_path_buf()));
        Ok(())
    }
}
