//! Model of async-process: build/service children are *virtual* processes driven by the schedule;
//! `output()` (cmd_stdout resources) runs the real command synchronously.
#![allow(dead_code, unused)]
use std::ffi::{OsStr, OsString};
use std::future::Future;
use std::io;
use std::os::unix::process::ExitStatusExt;
use std::pin::Pin;
pub use std::process::{ExitStatus, Output, Stdio};
use std::task::{Context, Poll};
use zx_rt::{rt, PState, Proc};

pub struct Command {
    program: OsString,
    args: Vec<OsString>,
    dir: Option<std::path::PathBuf>,
}
impl Command {
    pub fn new<S: AsRef<OsStr>>(program: S) -> Command {
        Command { program: program.as_ref().to_os_string(), args: Vec::new(), dir: None }
    }
    pub fn arg<S: AsRef<OsStr>>(&mut self, arg: S) -> &mut Command {
        self.args.push(arg.as_ref().to_os_string());
        self
    }
    pub fn current_dir<P: AsRef<std::path::Path>>(&mut self, dir: P) -> &mut Command {
        self.dir = Some(dir.as_ref().to_path_buf());
        self
    }
    pub fn stdout<T: Into<Stdio>>(&mut self, _c: T) -> &mut Command {
        self
    }
    pub fn stderr<T: Into<Stdio>>(&mut self, _c: T) -> &mut Command {
        self
    }
    pub fn spawn(&mut self) -> io::Result<Child> {
        let script = self.args.last().map(|s| s.to_string_lossy().to_string()).unwrap_or_default();
        let dir = self.dir.as_ref().map(|d| d.display().to_string()).unwrap_or_default();
        if zx_rt::spawn_should_fail(&script) {
            zx_rt::log(&format!("proc_spawn_failed task={} script={:?}", rt().cur_task, script));
            return Err(io::Error::from(io::ErrorKind::NotFound));
        }
        let id = rt().procs.len();
        let task = rt().cur_task;
        rt().procs.push(Proc { state: PState::Running, reaped: false, script: script.clone(), dir: dir.clone(), task });
        zx_rt::log(&format!("proc_spawn p{} task={} dir={} script={:?}", id, task, dir, script));
        zx_rt::bump();
        if let Ok(pat) = std::env::var("ZX_CRASH_ON_SPAWN") {
            if script.contains(pat.as_str()) {
                // zinoma itself dies while this script is running
                zx_rt::log("crash (on spawn)");
                std::process::exit(77);
            }
        }
        if let Ok(pat) = std::env::var("ZX_FAIL_SCRIPT") {
            if script.contains(pat.as_str()) {
                rt().procs[id].state = PState::Exited(1);
            }
        }
        Ok(Child { id })
    }
    pub fn output(&mut self) -> OutputFut {
        if let Ok(pat) = std::env::var("ZX_HANG_OUTPUT") {
            // a command whose output is awaited takes arbitrarily long: it never completes in this run
            if self.args.iter().any(|a| a.to_string_lossy().contains(pat.as_str())) {
                zx_rt::log(&format!("output_hangs task={}", rt().cur_task));
                return OutputFut(None);
            }
        }
        let mut c = std::process::Command::new(&self.program);
        c.args(&self.args);
        if let Some(d) = &self.dir {
            c.current_dir(d);
        }
        OutputFut(Some(c.output()))
    }
}
pub struct OutputFut(Option<io::Result<Output>>);
impl Unpin for OutputFut {}
impl Future for OutputFut {
    type Output = io::Result<Output>;
    fn poll(mut self: Pin<&mut Self>, _cx: &mut Context<'_>) -> Poll<Self::Output> {
        match self.0.take() {
            Some(r) => Poll::Ready(r),
            None => Poll::Pending,
        }
    }
}
pub struct Child {
    pub id: usize,
}
impl Child {
    pub fn kill(&mut self) -> io::Result<()> {
        let p = &mut rt().procs[self.id];
        if p.state == PState::Running {
            p.state = PState::Killed;
        }
        zx_rt::log(&format!("proc_kill p{} task={}", self.id, rt().cur_task));
        zx_rt::bump();
        Ok(())
    }
    pub fn status(&mut self) -> StatusFut<'_> {
        StatusFut { c: self }
    }
    pub fn id(&self) -> u32 {
        self.id as u32
    }
}
impl Drop for Child {
    fn drop(&mut self) {
        let p = &rt().procs[self.id];
        if !p.reaped {
            zx_rt::log(&format!("proc_dropped_unreaped p{} state={:?}", self.id, p.state));
        }
    }
}
pub struct StatusFut<'a> {
    c: &'a mut Child,
}
impl<'a> Future for StatusFut<'a> {
    type Output = io::Result<ExitStatus>;
    fn poll(self: Pin<&mut Self>, _cx: &mut Context<'_>) -> Poll<Self::Output> {
        let id = self.c.id;
        let p = &mut rt().procs[id];
        match p.state {
            PState::Running => Poll::Pending,
            PState::Exited(code) => {
                if !p.reaped {
                    p.reaped = true;
                    zx_rt::log(&format!("proc_reap p{} code={}", id, code));
                    zx_rt::bump();
                }
                // codes >= 1000 in the schedule mean "killed by signal (code - 1000)"
                Poll::Ready(Ok(if code >= 1000 { ExitStatus::from_raw(code - 1000) } else { ExitStatus::from_raw(code << 8) }))
            }
            PState::Killed => {
                if !p.reaped {
                    p.reaped = true;
                    zx_rt::log(&format!("proc_reap p{} killed", id));
                    zx_rt::bump();
                }
                Poll::Ready(Ok(ExitStatus::from_raw(9)))
            }
        }
    }
}
