"""Library models for the ZX interpreter: std collections, Option/Result, iterators, strings/paths,
channels, tasks, processes, formatting.  Each model states the documented contract of the call.
Environment interactions (channels, processes, file system, oracles) are delegated to `interp.world`.
"""
import re

import z3

from .prog import Unsupported
from .values import (INTW, NONE, UNIT, Closure, FnRef, Opaque, REnum, RMap, RSet, RStruct, RTuple, RVec, Ref,
                     Union, b_and, b_ite, b_not, b_or, err, is_boolish, is_intish, is_sym, key_of, merge,
                     mk_union, ok, simp, some, zbool, zint)

MODELLED_CALLS = set()


def _strip_ty(ty):
    return ty.replace(' ', '')


class Lib:
    def __init__(self, interp):
        self.I = interp
        self.prog = interp.prog

    # ------------------------------------------------------------------ type helpers
    BUILTIN_ENUMS = {
        'Either': ('Left', 'Right'),
        'Component': ('Prefix', 'RootDir', 'CurDir', 'ParentDir', 'Normal'),
        'ErrorKind': ('NotFound', 'PermissionDenied', 'AlreadyExists', 'Other', 'PathNotFound', 'WatchNotFound', 'MaxFilesWatch', 'Generic', 'Io', 'InvalidConfig'),
        'TrySendError': ('Full', 'Closed'),
        'Ordering': ('Less', 'Equal', 'Greater'),
        'Poll': ('Ready', 'Pending'),
        'RecursiveMode': ('Recursive', 'NonRecursive'),
        # notify::event
        'EventKind': ('Any', 'Access', 'Create', 'Modify', 'Remove', 'Other'),
        'ModifyKind': ('Any', 'Data', 'Metadata', 'Name', 'Other'),
        'RenameMode': ('Any', 'To', 'From', 'Both', 'Other'),
        'CreateKind': ('Any', 'File', 'Folder', 'Other'),
        'RemoveKind': ('Any', 'File', 'Folder', 'Other'),
        'DataChange': ('Any', 'Size', 'Content', 'Other'),
        'MetadataKind': ('Any', 'AccessTime', 'WriteTime', 'Permissions', 'Ownership', 'Extended', 'Other'),
        'AccessKind': ('Any', 'Read', 'Open', 'Close', 'Other'),
        'AccessMode': ('Any', 'Execute', 'Read', 'Write', 'Other'),
    }

    def resolve_ctor(self, segs):
        """Resolve a constructor path to ('struct', Ty, None) or ('variant', Ty, Variant)."""
        I = self.I
        segs = list(segs)
        if len(segs) >= 2 and segs[-2] in self.BUILTIN_ENUMS and segs[-1] in self.BUILTIN_ENUMS[segs[-2]]:
            if self.prog.lookup_type(I.frame.module, segs[:-1]) is None:
                return ('variant', segs[-2], segs[-1])
        if segs and segs[0] == 'Self' and I.frame.self_ty:
            segs[0] = I.frame.self_ty
        t = self.prog.lookup_type(I.frame.module, segs)
        if t is not None:
            mod, node = t
            if node['k'] == 'Struct':
                return ('struct', self.type_id(mod, node['name']), None)
        if len(segs) >= 2:
            t = self.prog.lookup_type(I.frame.module, segs[:-1])
            if t is not None and t[1]['k'] == 'Enum':
                if any(v['name'] == segs[-1] for v in t[1]['variants']):
                    return ('variant', self.type_id(t[0], t[1]['name']), segs[-1])
        # variant imported directly (use Enum::Variant) not supported
        return None

    def type_id(self, mod, name):
        """Type identifier of a user type: its simple name, qualified by the module when the name is not unique."""
        c = self.prog.types_by_name.get(name, [])
        if len(c) > 1:
            return '::'.join(mod + (name,))
        return name

    def split_tid(self, tid):
        if '::' in tid:
            parts = tid.split('::')
            return tuple(parts[:-1]), parts[-1]
        c = self.prog.types_by_name.get(tid, [])
        if len(c) == 1:
            return c[0][0], tid
        return None, tid

    def struct_fields(self, tyname):
        mod, name = self.split_tid(tyname)
        if mod is None:
            return None
        m = self.prog.modules.get(mod)
        node = m.types.get(name) if m else None
        if node is None or node['k'] != 'Struct':
            return None
        return [(f['name'], f['ty']) for f in node['fields']]

    def find_user_method(self, tyname, method, trait=None):
        mod, name = self.split_tid(tyname)
        if mod is None:
            return None
        cands = []
        for m in self.prog.modules.values():
            for (ty, tr, fds) in m.impls:
                if ty != name:
                    continue
                ap = self.prog.abs_path(m.path, [ty])
                if ap is not None and ap != mod + (name,):
                    continue
                for fd in fds:
                    if fd.name == method and (trait is None or (tr or '').split('::')[-1] == trait):
                        cands.append(fd)
        if not cands:
            return None
        if len(cands) == 1:
            return cands[0]
        inherent = [c for c in cands if c.trait is None]
        if len(inherent) == 1:
            return inherent[0]
        raise Unsupported('ambiguous user method %s::%s' % (tyname, method))

    def ident_pattern_value(self, name):
        """A bare identifier pattern that actually names a constant / unit variant."""
        if name in ('None',):
            return NONE
        return None

    def try_ctor_call(self, segs, e):
        """Tuple-struct / tuple-variant constructor calls and Some/Ok/Err."""
        I = self.I
        name = segs[-1]
        if len(segs) == 1 and name in ('Some', 'Ok', 'Err'):
            v = I.eval(e['args'][0])
            return some(v) if name == 'Some' else ok(v) if name == 'Ok' else err(v)
        ti = self.resolve_ctor(segs)
        if ti is None:
            return None
        kind, ty, variant = ti
        args = [I.eval(x) for x in e['args']]
        if kind == 'struct':
            decl = self.struct_fields(ty)
            if decl is not None and len(decl) == len(args):
                args = [self.coerce(a, t) for a, (_, t) in zip(args, decl)]
            return RStruct(ty, {i: a for i, a in enumerate(args)})
        return REnum(ty, variant, {i: a for i, a in enumerate(args)})

    def path_value(self, segs, e):
        """Value of a non-local path expression: unit variants, consts, statics, fn references."""
        I = self.I
        name = segs[-1]
        if segs == ['None']:
            return NONE
        ti = self.resolve_ctor(segs)
        if ti is not None:
            kind, ty, variant = ti
            if kind == 'variant':
                return REnum(ty, variant)
            if kind == 'struct':
                return RStruct(ty, {})
        ap = self.prog.abs_path(I.frame.module, segs)
        if ap is not None:
            m = self.prog.modules.get(ap[:-1])
            if m is not None and ap[-1] in m.consts:
                c = m.consts[ap[-1]]
                if c.get('k') == 'Lazy':
                    cache = getattr(I, 'static_cache', None)
                    if cache is None or getattr(I, 'static_cache_path', None) is not I.effects:
                        cache = I.static_cache = {}
                        I.static_cache_path = I.effects          # one evaluation per explored path (the effect log is per path)
                    if ap in cache:
                        return cache[ap]
                v = self._eval_in_module(c['expr'], m.path)
                if c.get('k') == 'Lazy':
                    v = self._mark_shared(v, '::'.join(ap))
                    I.static_cache[ap] = v
                if c.get('k') == 'Lazy' and isinstance(v, Opaque) and v.tag == 'SyncObj':
                    # a static: one object for the whole process, shared by every target
                    return Opaque('SyncObj', kind=v.get('kind'), shared='::'.join(ap), oid=0, inner=v.get('inner'))
                return v
        fd = self.prog.lookup_fn(I.frame.module, segs, I.frame.self_ty)
        if fd is not None:
            return FnRef(fd=fd)
        s = '::'.join(segs)
        if s in ('ToString::to_string', 'String::as_str', 'Result::ok', 'Option::Some', 'Some', 'Ok', 'Err', 'String::from',
                 'PathBuf::from', 'Into::into', 'Clone::clone', 'ToOwned::to_owned', 'HashSet::new', 'Vec::new', 'String::to_string',
                 'BTreeSet::new', 'BTreeMap::new', 'HashMap::new', 'String::new'):
            return FnRef(name=s)
        if s == 'SystemTime::UNIX_EPOCH':
            return Opaque('SystemTime', t=0)
        if s in ('std::u64::MAX', 'u64::MAX'):
            return (1 << 64) - 1
        raise Unsupported('path expression %s' % s, e)

    def _mark_shared(self, v, name):
        """Channel ends that live in a static are process-wide objects shared by every target."""
        if isinstance(v, RTuple):
            return RTuple(tuple(self._mark_shared(x, name) for x in v.items))
        if isinstance(v, Opaque) and v.tag in ('Sender', 'Receiver') and not v.get('shared'):
            d = dict(v.data)
            d['shared'] = name
            return Opaque(v.tag, **d)
        return v

    def _eval_in_module(self, expr, module):
        from .interp import Frame
        I = self.I
        fr = Frame(None, module, None)
        I.frames.append(fr)
        try:
            return I.eval(expr)
        finally:
            I.frames.pop()

    # ------------------------------------------------------------------ coercions by declared type
    def coerce(self, v, ty):
        """Fix up lazily typed values (collect() results, into()) from a declared type string."""
        if ty is None:
            return v
        t = _strip_ty(ty)
        if isinstance(v, Opaque) and v.tag == 'Collected':
            return self.collect_as(v, t)
        if isinstance(v, REnum) and v.ty == 'Result' and (t.startswith('Result<') or t.startswith('anyhow::Result<')) and 0 in v.payload:
            inner = t[t.index('<') + 1:-1]
            if v.variant == 'Ok':
                inner_ok = self._first_generic(inner)
                p = self.coerce(v.payload[0], inner_ok)
                if p is not v.payload[0]:
                    return ok(p)
            return v
        if isinstance(v, REnum) and v.ty == 'Option' and v.variant == 'Some' and t.startswith('Option<'):
            p = self.coerce(v.payload[0], t[7:-1])
            if p is not v.payload[0]:
                return some(p)
        if isinstance(v, Opaque) and v.tag == 'IntoPending':
            return self.into_as(v.get('value'), t)
        return v

    def _first_generic(self, s):
        depth = 0
        for i, ch in enumerate(s):
            if ch == '<':
                depth += 1
            elif ch == '>':
                depth -= 1
            elif ch == ',' and depth == 0:
                return s[:i]
        return s

    def _split_generics(self, s):
        out, depth, cur = [], 0, ''
        for ch in s:
            if ch in '<(':
                depth += 1
            elif ch in '>)':
                depth -= 1
            if ch == ',' and depth == 0:
                out.append(cur)
                cur = ''
            else:
                cur += ch
        if cur:
            out.append(cur)
        return out

    def collect_as(self, c, t):
        items = c.get('items')   # list of (guard, value)
        t = t.lstrip('&')
        t = t.replace('std::collections::', '').replace('std::path::', '').replace('async_std::path::', '')
        if t == '_' or t == '':
            return c
        base = t.split('<')[0]
        inner = t[t.index('<') + 1:-1] if '<' in t else ''
        if base in ('Vec', 'VecDeque'):
            return RVec(items)
        if base in ('HashSet', 'BTreeSet'):
            ent = {}
            for g, v in items:
                v = self.I.deref(v) if isinstance(v, Ref) else v
                k = key_of(v)
                if k in ent:
                    ent[k] = (b_or(ent[k][0], g), ent[k][1])
                else:
                    ent[k] = (g, v)
            return RSet(ent, ordered=(base == 'BTreeSet'))
        if base in ('HashMap', 'BTreeMap'):
            ent = {}
            for g, v in items:
                v = self.I.deref(v)
                if not isinstance(v, RTuple) or len(v.items) != 2:
                    raise Unsupported('collect into map from non-pairs')
                kv, vv = v.items
                kv = self.I.deref(kv)
                k = key_of(kv)
                if k in ent:
                    # later insert overwrites earlier when present
                    g0, k0, v0 = ent[k]
                    ent[k] = (b_or(g0, g), kv, merge(g, vv, v0))
                else:
                    ent[k] = (g, kv, vv)
            return RMap(ent, ordered=(base == 'BTreeMap'))
        if base in ('Result', 'anyhow::Result'):
            okty = self._first_generic(inner)
            # collect Result items: first Err wins
            vals = []
            for g, v in items:
                if g is not True:
                    raise Unsupported('collect::<Result<..>> over guarded items')
                v = self.I.deref(v)
                if not (isinstance(v, REnum) and v.ty == 'Result'):
                    raise Unsupported('collect::<Result> of non-results')
                if v.variant == 'Err':
                    return v
                vals.append((True, v.payload[0]))
            return ok(self.collect_as(Opaque('Collected', items=vals), okty))
        if base == 'Option':
            vals = []
            for g, v in items:
                v = self.I.deref(v)
                if v.variant == 'None':
                    return NONE
                vals.append((g, v.payload[0]))
            return some(self.collect_as(Opaque('Collected', items=vals), inner))
        if base == 'String':
            return ''.join(self.to_display(v) for g, v in items)
        raise Unsupported('collect into %s' % t)

    def into_as(self, v, t):
        t = t.replace('std::path::', '').replace('async_std::path::', '')
        if t in ('PathBuf', 'String', '&Path', '&str', 'OsString', 'Box<str>', 'Arc<str>') and isinstance(v, str):
            return v
        # user From impls: impl From<X> for T
        segs = t.split('<')[0].split('::')
        tt = self.prog.lookup_type(self.I.frame.module, segs)
        if tt is not None:
            fd = self.find_user_method(self.type_id(tt[0], tt[1]['name']), 'from', trait='From')
            if fd is not None:
                return self.I.call_fn(fd, [v])
        return v

    # ------------------------------------------------------------------ equality / operators
    def value_eq(self, a, b):
        I = self.I
        a = I.deref(a)
        b = I.deref(b)
        if is_boolish(a) and is_boolish(b):
            if isinstance(a, bool) and isinstance(b, bool):
                return a == b
            return simp(zbool(a) == zbool(b))
        if is_intish(a) and is_intish(b):
            if isinstance(a, int) and isinstance(b, int):
                return a == b
            w = a.size() if is_sym(a) else b.size()
            return simp(zint(a, w) == zint(b, w))
        if isinstance(a, str) and isinstance(b, str):
            return a == b
        if isinstance(a, Opaque) and a.tag == 'char' and isinstance(b, Opaque) and b.tag == 'char':
            return a.get('c') == b.get('c')
        if a is UNIT and b is UNIT:
            return True
        if isinstance(a, RStruct) and isinstance(b, RStruct):
            if a.ty != b.ty:
                return False
            fd = self._user_eq(a.ty)
            return b_and(*[self.value_eq(a.fields[k], b.fields[k]) for k in a.fields])
        if isinstance(a, REnum) and isinstance(b, REnum):
            if a.ty != b.ty or a.variant != b.variant:
                return False
            return b_and(*[self.value_eq(a.payload[k], b.payload[k]) for k in a.payload])
        if isinstance(a, RTuple) and isinstance(b, RTuple):
            return b_and(*[self.value_eq(x, y) for x, y in zip(a.items, b.items)])
        if isinstance(a, RVec) and isinstance(b, RVec):
            if a.concrete() and b.concrete():
                if len(a.items) != len(b.items):
                    return False
                return b_and(*[self.value_eq(x, y) for (_, x), (_, y) in zip(a.items, b.items)])
            raise Unsupported('equality of guarded vectors')
        if isinstance(a, RSet) and isinstance(b, RSet):
            keys = set(a.entries) | set(b.entries)
            cs = []
            for k in keys:
                ga = a.entries.get(k, (False, None))[0]
                gb = b.entries.get(k, (False, None))[0]
                cs.append(self.value_eq(ga, gb))
            return b_and(*cs)
        if isinstance(a, RMap) and isinstance(b, RMap):
            keys = set(a.entries) | set(b.entries)
            cs = []
            for k in keys:
                ea = a.entries.get(k)
                eb = b.entries.get(k)
                ga = ea[0] if ea else False
                gb = eb[0] if eb else False
                if ea and eb:
                    cs.append(b_and(self.value_eq(ga, gb), b_or(b_not(ga), self.value_eq(ea[2], eb[2]))))
                else:
                    cs.append(self.value_eq(ga, gb))
            return b_and(*cs)
        if isinstance(a, Opaque) and isinstance(b, Opaque) and a.tag == b.tag:
            if a.tag in ('Duration', 'SystemTime'):
                return self.value_eq(a.get('t'), b.get('t'))
            return b_and(*[self.value_eq(a.data[k], b.data[k]) for k in a.data if k in b.data])
        if isinstance(a, Union) or isinstance(b, Union):
            raise Unsupported('equality on unresolved union')
        raise Unsupported('equality between %r and %r' % (a, b))

    def _user_eq(self, ty):
        return None

    def union_to_bool(self, u):
        out = False
        for g, v in u.alts:
            if not is_boolish(v):
                raise Unsupported('union of non-bools as condition')
            out = b_or(out, b_and(g, v))
        return out

    def binop(self, op, l, r, node):
        if isinstance(l, Union):
            l = self.I.resolve_union(l)
        if isinstance(r, Union):
            r = self.I.resolve_union(r)
        if op == '==':
            return self.value_eq(l, r)
        if op == '!=':
            return b_not(self.value_eq(l, r))
        if is_boolish(l) and is_boolish(r):
            if op == '&':
                return b_and(l, r)
            if op == '|':
                return b_or(l, r)
            if op == '^':
                return b_not(self.value_eq(l, r))
        if isinstance(l, Opaque) and l.tag in ('Duration', 'SystemTime') and isinstance(r, Opaque):
            return self.binop(op, l.get('t'), r.get('t'), node)
        if is_intish(l) and is_intish(r):
            if isinstance(l, int) and isinstance(r, int):
                res = {'+': lambda: l + r, '-': lambda: l - r, '*': lambda: l * r, '/': lambda: l // r, '%': lambda: l % r,
                       '<': lambda: l < r, '<=': lambda: l <= r, '>': lambda: l > r, '>=': lambda: l >= r,
                       '&': lambda: l & r, '|': lambda: l | r, '^': lambda: l ^ r, '<<': lambda: l << r, '>>': lambda: l >> r}.get(op)
                if res is None:
                    raise Unsupported('int op %s' % op, node)
                v = res()
                if op == '-' and v < 0:
                    raise self._panic('attempt to subtract with overflow', node)
                return v
            w = l.size() if is_sym(l) else r.size()
            a, b = zint(l, w), zint(r, w)
            table = {'+': lambda: a + b, '-': lambda: a - b, '*': lambda: a * b,
                     '<': lambda: z3.ULT(a, b), '<=': lambda: z3.ULE(a, b), '>': lambda: z3.UGT(a, b), '>=': lambda: z3.UGE(a, b),
                     '&': lambda: a & b, '|': lambda: a | b, '^': lambda: a ^ b}
            if op not in table:
                raise Unsupported('symbolic int op %s' % op, node)
            return simp(table[op]())
        if isinstance(l, str) and isinstance(r, str):
            if op == '+':
                return l + r
            if op in ('<', '<=', '>', '>='):
                return {'<': l < r, '<=': l <= r, '>': l > r, '>=': l >= r}[op]
        raise Unsupported('binary %s on %r, %r' % (op, l, r), node)

    def _panic(self, msg, node):
        from .interp import PanicEx
        return PanicEx(msg, node)

    def cast(self, v, ty, node):
        t = _strip_ty(ty)
        if is_intish(v) and t in ('usize', 'u64', 'u32', 'i64', 'u128', 'i32', 'u8', 'u16'):
            return v
        if is_boolish(v) and t in ('usize', 'u64', 'u32', 'u8'):
            if isinstance(v, bool):
                return int(v)
            return z3.If(v, z3.BitVecVal(1, INTW), z3.BitVecVal(0, INTW))
        raise Unsupported('cast to %s of %r' % (t, v), node)

    # ------------------------------------------------------------------ display / format
    def to_display(self, v):
        I = self.I
        v = I.deref(v)
        if isinstance(v, str):
            return v
        if isinstance(v, bool):
            return 'true' if v else 'false'
        if isinstance(v, int):
            return str(v)
        if isinstance(v, Opaque) and v.tag == 'char':
            return v.get('c')
        if isinstance(v, (RStruct, REnum)) and v.ty not in ('Option', 'Result'):
            fd = self.find_user_method(v.ty, 'fmt', trait='Display')
            if fd is not None:
                fm = Ref(I.alloc(Opaque('Formatter', buf='')), ())
                I.call_fn(fd, [fm], self_arg=Ref(I.alloc(v), ()))
                return I.load(fm).get('buf')
        if isinstance(v, Opaque) and v.tag == 'Error':
            return v.get('msg', '<error>')
        if isinstance(v, Opaque) and v.tag == 'ExitStatus':
            return '<exit status>'
        if isinstance(v, Opaque) and v.tag == 'Display':
            return self.to_display(v.get('value'))
        if is_sym(v):
            return '<sym>'
        raise Unsupported('Display of %r' % (v,))

    def format(self, args):
        """format!-style: first arg literal template."""
        I = self.I
        if not args:
            return ''
        tmpl = args[0]
        if not isinstance(tmpl, str):
            raise Unsupported('format! with non-literal template')
        rest = list(args[1:])
        out = ''
        i = 0
        ai = 0
        while i < len(tmpl):
            c = tmpl[i]
            if c == '{':
                if tmpl[i + 1] == '{':
                    out += '{'
                    i += 2
                    continue
                j = tmpl.index('}', i)
                spec = tmpl[i + 1:j]
                name = spec.split(':')[0]
                fmt = spec.split(':')[1] if ':' in spec else ''
                if name == '':
                    v = rest[ai]
                    ai += 1
                elif name.isdigit():
                    v = rest[int(name)]
                else:
                    a = I.lookup_var(name)
                    if a is None:
                        raise Unsupported('format! named argument %s' % name)
                    v = I.store[a]
                if fmt in ('?', '#?'):
                    out += '<dbg>'
                else:
                    out += self.to_display(v)
                i = j + 1
            elif c == '}':
                if tmpl[i + 1:i + 2] == '}':
                    out += '}'
                    i += 2
                else:
                    raise Unsupported('bad format string')
            else:
                out += c
                i += 1
        return out

    def macro(self, e):
        I = self.I
        name = e['name']
        last = name.split('::')[-1]
        if name.startswith('log::') or last in ('trace', 'debug', 'info', 'warn', 'error') and name.startswith('log'):
            return UNIT
        if last in ('println', 'eprintln', 'print', 'eprint', 'dbg'):
            return UNIT
        if last == 'pin_mut':
            return UNIT
        if last in ('format',):
            args = [I.eval(a) for a in e['args']]
            return self.format(args)
        if last == 'format_args':
            args = [I.eval(a) for a in e['args']]
            return self.format(args)
        if last == 'anyhow':
            args = [I.eval(a) for a in e['args']]
            if args and isinstance(args[0], str):
                try:
                    msg = self.format(args)
                except Unsupported:
                    msg = '<msg>'
            else:
                msg = '<msg>'
            return Opaque('Error', msg=msg, site=e['line'], file=e['_file'])
        if last in ('bail', 'ensure'):
            # anyhow: bail!(..) = return Err(anyhow!(..)); ensure!(cond, ..) = if !cond { bail!(..) }
            from .interp import ReturnEx
            margs = list(e['args'])
            if last == 'ensure':
                cond = I.deref(I.eval(margs[0]))
                margs = margs[1:]
                if I.branch(cond):
                    return UNIT
            args = [I.eval(a) for a in margs]
            msg = '<msg>'
            if args and isinstance(args[0], str):
                try:
                    msg = self.format(args)
                except Unsupported:
                    pass
            raise ReturnEx(err(Opaque('Error', msg=msg, site=e['line'], file=e['_file'])))
        if last in ('write', 'writeln'):
            args = [I.eval(a) for a in e['args']]
            fm = args[0]
            s = self.format(args[1:]) + ('\n' if last == 'writeln' else '')
            r = I.as_ref(fm) or fm
            cur = I.load(r)
            I.store_at(r, cur.with_(buf=cur.get('buf') + s))
            return ok(UNIT)
        if last == 'vec':
            return RVec.of(I.eval(a) for a in (e['args'] or []))
        if name == 'vec_repeat':
            v = I.eval(e['args'][0])
            n = I.eval(e['args'][1])
            return RVec.of([v] * n)
        if last == 'cfg':
            raw = e['raw'].replace(' ', '')
            if raw == 'windows':
                return False
            if raw in ('unix', 'target_os="linux"'):
                return True
            raise Unsupported('cfg!(%s)' % raw, e)
        if last in ('assert', 'debug_assert'):
            c = I.deref(I.eval(e['args'][0]))
            if not I.branch(c):
                raise self._panic('assertion failed', e)
            return UNIT
        if last in ('assert_eq', 'debug_assert_eq'):
            a = I.eval(e['args'][0])
            b = I.eval(e['args'][1])
            if not I.branch(self.value_eq(a, b)):
                raise self._panic('assert_eq failed', e)
            return UNIT
        if last in ('panic', 'unreachable', 'todo', 'unimplemented'):
            raise self._panic('%s!' % last, e)
        if last == 'module_path':
            return 'zinoma'
        raise Unsupported('macro %s!' % name, e)

    # ------------------------------------------------------------------ iteration
    def iterate(self, it, node=None):
        """Items (guard, value) of an iterable value."""
        I = self.I
        it0 = it
        it = I.deref(it)
        if isinstance(it, Opaque) and it.tag == 'Iter':
            return list(it.get('items'))
        if isinstance(it, Opaque) and it.tag == 'Collected':
            return list(it.get('items'))
        if isinstance(it, RVec):
            return list(it.items)
        if isinstance(it, RSet):
            ents = it.entries.items()
            if it.ordered:
                ents = sorted(ents, key=lambda kv: kv[0] if isinstance(kv[0], str) else repr(kv[0]))
            return [(g, v) for _, (g, v) in ents]
        if isinstance(it, RMap):
            ents = it.entries.items()
            if it.ordered:
                ents = sorted(ents, key=lambda kv: repr(kv[0]))
            elif getattr(self.I, 'symbolic_hash_order', False):
                ents = self._hash_order(list(ents), lambda kv: kv[1][0])
            return [(g, RTuple((kv, v))) for _, (g, kv, v) in ents]
        if isinstance(it, REnum) and it.ty == 'Option':
            return [(True, it.payload[0])] if it.variant == 'Some' else []
        if isinstance(it, Opaque) and it.tag == 'Range':
            s, t = it.get('start'), it.get('end')
            if isinstance(s, int) and isinstance(t, int):
                return [(True, i) for i in range(s, t + (1 if it.get('closed') else 0))]
        raise Unsupported('iteration over %r' % (it,), node)

    def _hash_order(self, ents, guard_of):
        """Iteration order of a hash container is arbitrary: for small containers whose entries are all certainly present the
        order is a solver-chosen permutation (one choice per iteration; a driver opts in with I.symbolic_hash_order)."""
        import itertools
        n = len(ents)
        if not (2 <= n <= 3) or any(guard_of(e) is not True for e in ents):
            return ents
        perms = list(itertools.permutations(range(n)))
        sel = self.I.fresh('hash_order', 'bv', 3)
        k = self.I.choose([sel == i for i in range(len(perms))])
        return [ents[j] for j in perms[k]]

    def mk_iter(self, items):
        return Opaque('Iter', items=tuple(items))

    def slice_range(self, vec, rng, node):
        vals = vec.values()
        s = rng.get('start') or 0
        t = rng.get('end')
        if t is None:
            t = len(vals)
        if rng.get('closed'):
            t += 1
        if not isinstance(s, int) or not isinstance(t, int):
            raise Unsupported('symbolic slice range', node)
        if t > len(vals) or s > t:
            raise self._panic('slice index out of range', node)
        return RVec.of(vals[s:t])

    # ------------------------------------------------------------------ futures
    def classify_future(self, fv, arm):
        """Describe the future of a select! arm: ('recv', chan) | ('nested', ref/future) | ('status', proc) | ..."""
        I = self.I
        ref = fv if isinstance(fv, Ref) else None
        v = I.deref(fv)
        if isinstance(v, Opaque) and v.tag == 'Future':
            k = v.get('kind')
            if k in ('recv', 'next'):
                return {'kind': 'recv', 'chan': v.get('chan'), 'via': k}
            if k == 'status':
                return {'kind': 'status', 'proc': v.get('proc')}
            if k in ('call', 'block'):
                return {'kind': 'nested', 'future': v, 'ref': ref}
            if k == 'ctrlc':
                return {'kind': 'ctrlc'}
            if k == 'join_all':
                return {'kind': 'join', 'handles': v.get('handles')}
        if isinstance(v, Opaque) and v.tag == 'Fuse':
            inner = v.get('inner')
            if isinstance(inner, Union):
                inner = I.resolve_union(inner)
            if inner is None:
                return {'kind': 'terminated', 'ref': ref}
            d = self.classify_future(inner, arm)
            d['fuse_ref'] = ref
            return d
        raise Unsupported('select! arm future %r' % (v,), arm)

    def await_prim(self, f, node, f0=None):
        """Await of a primitive future outside select!: consult the trace or suspend."""
        I = self.I
        kind = f.get('kind')
        if kind == 'send':
            return I.world.send(I, f.get('chan'), f.get('msg'), node)
        if kind == 'spawn_blocking':
            return I.call_value(f.get('f'), [], node)
        if kind == 'script':
            return I.world.run_script(I, f)
        if kind == 'shared_acquire':
            I.guard_seq += 1
            I.held[I.guard_seq] = f.get('name')
            I.effect('lock', name=f.get('name'), obj='Channel', how='send', gid=I.guard_seq)
            return ok(UNIT)
        if kind == 'ready':
            return f.get('value')
        if kind == 'join2':
            a = I.await_value(f.get('a'), node)
            b = I.await_value(f.get('b'), node)
            return RTuple((a, b))
        if kind == 'join_all_futs':
            return RVec((g, I.await_value(x, node)) for g, x in f.get('items'))
        if kind == 'try_join_all_futs':
            out = []
            for g, x in f.get('items'):
                if g is not True:
                    if not I.branch(g):
                        continue
                r = I.deref(I.await_value(x, node))
                if r.variant == 'Err':
                    return r
                out.append((True, r.payload[0]))
            return ok(RVec(out))
        if kind == 'status' and hasattr(I.world, 'status_of_killed'):
            r = I.world.status_of_killed(I, f.get('proc'), node)
            if r is not None:
                return r
        sid = node['_id']
        if I.trace_pos < len(I.trace) and I.trace[I.trace_pos][0] == sid:
            _, arm, value = I.trace[I.trace_pos]
            I.trace_pos += 1
            return value
        info = {'future': f, 'node': node}
        if kind in ('recv', 'next'):
            info.update(kind2='recv', chan=f.get('chan'), via=kind)
        elif kind == 'status':
            info.update(kind2='status', proc=f.get('proc'))
        elif kind == 'join_all':
            info.update(kind2='join', handles=f.get('handles'))
        elif kind == 'ctrlc':
            info.update(kind2='ctrlc')
        elif kind == 'output':
            return I.world.cmd_output(I, f.get('cmd'), node)
        elif kind == 'select2':
            return I.world.select2(I, f, node)
        else:
            raise Unsupported('await of primitive future %s' % kind, node)
        I.suspend(sid, 'await', info)

    # ------------------------------------------------------------------ free functions / associated fns
    def call_path(self, name, args, node, generic_args=None):
        I = self.I
        W = I.world
        MODELLED_CALLS.add(name)
        segs = name.split('::')
        last2 = '::'.join(segs[-2:])
        last = segs[-1]
        turbofish = None
        if generic_args:
            ga = generic_args[-1]['args'] if generic_args[-1]['args'] else (generic_args[-2]['args'] if len(generic_args) > 1 else [])
            turbofish = ga
        if last2 in ('HashMap::new', 'HashMap::with_capacity', 'HashMap::default'):
            return RMap()
        if last2 in ('BTreeMap::new',):
            return RMap(ordered=True)
        if last2 in ('HashSet::new', 'HashSet::with_capacity', 'HashSet::default'):
            return RSet()
        if last2 == 'BTreeSet::new':
            return RSet(ordered=True)
        if last2 in ('Vec::new', 'Vec::with_capacity', 'VecDeque::new', 'VecDeque::with_capacity', 'VecDeque::default', 'Vec::default'):
            # (a VecDeque is the same ordered sequence; push_front/pop_front/... are modelled on it)
            return RVec()
        if last2 in ('Mutex::new', 'RwLock::new', 'Semaphore::new', 'Barrier::new', 'Condvar::new'):
            # synchronisation objects: identity matters only for objects shared between targets (statics), see path_value
            I.fresh_counter['syncobj'] = I.fresh_counter.get('syncobj', 0) + 1
            return Opaque('SyncObj', kind=segs[-2], shared=None, oid=I.fresh_counter['syncobj'], inner=(I.deref(args[0]) if args else UNIT))
        if last2 in ('mem::take', 'mem::replace', 'mem::swap'):
            r = I.as_ref(args[0]) or args[0]
            if not isinstance(r, Ref):
                raise Unsupported('%s through a non-reference' % last2, node)
            old = I.deref(r)
            if last2 == 'mem::replace':
                I.store_at(r, I.deref(args[1]))
                return old
            if last2 == 'mem::swap':
                r2 = I.as_ref(args[1]) or args[1]
                if not isinstance(r2, Ref):
                    raise Unsupported('mem::swap through a non-reference', node)
                other = I.deref(r2)
                I.store_at(r, other)
                I.store_at(r2, old)
                return UNIT
            # take: leaves Default::default() of the value's type behind
            if isinstance(old, bool) or (is_sym(old) and z3.is_bool(old)):
                dflt = False
            elif isinstance(old, int):
                dflt = 0
            elif isinstance(old, str):
                dflt = ''
            elif isinstance(old, RVec):
                dflt = RVec()
            elif isinstance(old, RSet):
                dflt = RSet(ordered=old.ordered)
            elif isinstance(old, RMap):
                dflt = RMap(ordered=old.ordered)
            elif isinstance(old, REnum) and old.ty == 'Option':
                dflt = NONE
            else:
                raise Unsupported('mem::take of %r' % (old,), node)
            I.store_at(r, dflt)
            return old
        if last2 in ('slice::from_ref', 'slice::from_mut'):
            return RVec.of([I.deref(args[0])])
        if last2 in ('String::new', 'PathBuf::new', 'OsString::new'):
            return ''
        if last2 == 'process::id':
            return 4242      # (some process id: a concrete representative)
        if last2 in ('String::from', 'PathBuf::from', 'Path::new', 'OsString::from', 'OsStr::new', 'String::as_str', 'ToString::to_string',
                     'String::to_string', 'ToOwned::to_owned', 'Clone::clone', 'Into::into', 'Arc::from', 'Arc::new', 'Box::new', 'Box::pin',
                     'Rc::new', 'std::convert::identity', 'Some'.join(['', ''])):
            v = I.deref(args[0])
            if last in ('to_string',) and not isinstance(v, str):
                return self.to_display(v)
            return v
        if name in ('Some', 'Option::Some'):
            return some(args[0])
        if name == 'Ok':
            return ok(args[0])
        if name == 'Err':
            return err(args[0])
        if last2 == 'String::from_utf8_lossy':
            return I.deref(args[0])
        if last2 == 'stream::iter':
            return Opaque('Stream', items=tuple(self.iterate(args[0], node)))
        if last2 in ('channel::bounded', 'async_channel::bounded') or name == 'bounded':
            cap = I.deref(args[0])
            return W.new_channel(I, cap, node)
        if last2 in ('channel::unbounded',) or name == 'unbounded':
            return W.new_channel(I, None, node)
        if last2 == 'Fuse::terminated':
            return Opaque('Fuse', inner=None)
        if last2 == 'task::spawn':
            return W.spawn_task(I, args[0], node)
        if last2 == 'task::spawn_blocking':
            return Opaque('Future', kind='spawn_blocking', f=args[0])
        if last2 == 'task::block_on':
            return I.await_value(args[0], node)
        if last2 == 'future::join_all':
            items = self.iterate(args[0], node)
            vals = [I.deref(x) for _, x in items]
            if vals and all(isinstance(x, Opaque) and x.tag == 'JoinHandle' for x in vals):
                return Opaque('Future', kind='join_all', handles=tuple(items))
            return Opaque('Future', kind='join_all_futs', items=tuple(items))
        if last2 == 'future::try_join_all':
            return Opaque('Future', kind='try_join_all_futs', items=tuple(self.iterate(args[0], node)))
        if last2 == 'future::join':
            return Opaque('Future', kind='join2', a=args[0], b=args[1])
        if last2 == 'future::ready':
            return Opaque('Future', kind='ready', value=args[0])
        if last2 == 'future::select':
            return Opaque('Future', kind='select2', a=args[0], b=args[1])
        if last2 == 'Command::new':
            return Opaque('Command', program=I.deref(args[0]), args=(), dir=None)
        if last2 == 'Stdio::inherit':
            return Opaque('Stdio')
        if last2 == 'Instant::now':
            return Opaque('Instant', t=I.fresh('instant_now', 'bv', 64))
        if last2 == 'SystemTime::now':
            return Opaque('SystemTime', t=I.fresh('now', 'bv', 64))
        if last2 in ('env::var_os', 'env::var'):
            return NONE
        if last2 == 'thread::available_parallelism':
            # environment value >= 1; the adversarial instance is a machine (or cpuset) with one CPU
            return ok(Opaque('NonZeroUsize', n=1))
        if last2 == 'CtrlC::new':
            return ok(Opaque('Future', kind='ctrlc'))
        if last2 == 'Error::new':
            e0 = I.deref(args[0])
            return Opaque('Error', msg=self._errmsg(e0), site=node['line'], file=node['_file'], source=e0)
        if last2 == 'iter::once':
            return self.mk_iter([(True, args[0])])
        if last2 == 'iter::empty':
            return self.mk_iter([])
        if last2 == 'itertools::sorted':
            its = self._forked(self.iterate(args[0], node))
            return self.mk_iter(sorted(its, key=lambda gx: self._sort_key(I.deref(gx[1]), node)))
        if last2 == 'itertools::join':
            items = self.iterate(args[0], node)
            sep = I.deref(args[1])
            parts = []
            for g, x in items:
                if g is not True:
                    raise Unsupported('join over guarded items', node)
                parts.append(self.to_display(x))
            return sep.join(parts)
        if last2 == 'Regex::new':
            return ok(Opaque('Regex', pattern=I.deref(args[0])))
        if last2 in ('Duration::from_millis', 'Duration::from_secs'):
            return Opaque('Duration', t=I.deref(args[0]))
        if last2 == 'Config::default' and name.endswith('Config::default'):
            return Opaque('NotifyConfig')
        if last2 == 'Watcher::new' or last2 == 'RecommendedWatcher::new':
            return W.new_watcher(I, args[0], node)
        r = W.call_path(I, name, args, node)
        if r is not NotImplemented:
            return r
        raise Unsupported('call of external function %s' % name, node)

    def _looks_like_handles(self, v):
        return True

    def _errmsg(self, e0):
        if isinstance(e0, Opaque) and e0.tag in ('Error', 'IoError'):
            return e0.get('msg', '<err>')
        return '<err>'

    # ------------------------------------------------------------------ methods
    def call_method(self, ref, v, method, args, node):
        I = self.I
        MODELLED_CALLS.add('.' + method)
        if isinstance(v, Opaque) and v.tag == 'DefaultPending':
            # Default::default() of a collection whose type is fixed by its first use
            if method in ('push', 'push_back', 'push_front', 'extend_from_slice', 'pop', 'first', 'last'):
                v = RVec()
            elif method in ('entry', 'get', 'get_mut', 'contains_key') or (method == 'insert' and len(args) == 2):
                v = RMap()
            elif method in ('insert', 'contains', 'remove', 'extend', 'len', 'is_empty', 'iter', 'into_iter'):
                v = RSet()
            else:
                raise Unsupported('method %s on a default value of unknown type' % method, node)
            if ref is not None:
                I.store_at(ref, v)
        if isinstance(v, Opaque) and v.tag == 'Match' and method == 'as_str':
            return v.get('s')
        # generic, type independent ---------------------------------
        if method in ('clone', 'to_owned', 'cloned', 'borrow', 'as_ref', 'as_mut', 'to_vec', 'as_path', 'as_str', 'as_slice', 'to_path_buf',
                      'into_boxed_str', 'as_os_str', 'to_os_string', 'into_os_string', 'deref', 'by_ref', 'copied', 'into_owned') and not (
                isinstance(v, Opaque) and v.tag in ('Iter',)) and not (isinstance(v, REnum) and v.ty in ('Option', 'Result') and method in ('as_ref', 'as_mut', 'cloned', 'copied')):
            if method == 'as_mut':
                return ref
            return v
        if method == 'into':
            if isinstance(v, str):
                return v
            if isinstance(v, (RStruct, REnum, bool)) or is_sym(v):
                return Opaque('IntoPending', value=v)
            return v
        if method == 'to_string':
            if isinstance(v, Opaque) and v.tag == 'SymStr':
                return v
            return self.to_display(v)
        if method == 'fuse':
            if isinstance(v, Opaque) and v.tag == 'Future' and v.get('kind') in ('call', 'block'):
                return Opaque('Fuse', inner=v)
            return v
        if method == 'boxed' or method == 'boxed_local':
            return v
        if isinstance(v, bool) or (is_sym(v) and z3.is_bool(v)):
            if method == 'then':
                if I.branch(v):
                    return some(I.call_value(args[0], [], node))
                return NONE
        if isinstance(v, REnum) and v.ty == 'Option':
            return self.m_option(ref, v, method, args, node)
        if isinstance(v, REnum) and v.ty == 'Result':
            return self.m_result(ref, v, method, args, node)
        if isinstance(v, REnum) and v.ty == 'EventKind' and method in ('is_access', 'is_create', 'is_modify', 'is_remove', 'is_other'):
            # notify::EventKind predicates
            return v.variant == {'is_access': 'Access', 'is_create': 'Create', 'is_modify': 'Modify', 'is_remove': 'Remove', 'is_other': 'Other'}[method]
        if isinstance(v, RSet):
            return self.m_set(ref, v, method, args, node)
        if isinstance(v, RMap):
            return self.m_map(ref, v, method, args, node)
        if isinstance(v, RVec):
            return self.m_vec(ref, v, method, args, node)
        if isinstance(v, str):
            return self.m_str(ref, v, method, args, node)
        if isinstance(v, RTuple):
            raise Unsupported('method %s on tuple' % method, node)
        if isinstance(v, Opaque):
            if v.tag in ('Iter', 'Collected'):
                return self.m_iter(ref, v, method, args, node)
            r = self.m_opaque(ref, v, method, args, node)
            if r is not NotImplemented:
                return r
        if is_intish(v):
            if method in ('as_millis', 'as_secs'):
                return v
            r = self.m_int(v, method, args, node)
            if r is not NotImplemented:
                return r
        r = I.world.call_method(I, ref, v, method, args, node)
        if r is not NotImplemented:
            return r
        raise Unsupported('method %s on %r' % (method, v), node)

    # --- integers (unsigned)
    def m_int(self, v, method, args, node):
        I = self.I
        a = I.deref(args[0]) if args else None
        if a is not None and not is_intish(a):
            return NotImplemented
        conc = isinstance(v, int) and (a is None or isinstance(a, int))
        w = v.size() if is_sym(v) else (a.size() if a is not None and is_sym(a) else INTW)
        x = zint(v, w)
        y = zint(a, w) if a is not None else None
        if method == 'saturating_sub':
            return max(v - a, 0) if conc else simp(z3.If(z3.ULT(x, y), z3.BitVecVal(0, w), x - y))
        if method == 'saturating_add':
            return v + a if conc else simp(z3.If(z3.ULT(x + y, x), z3.BitVecVal((1 << w) - 1, w), x + y))
        if method in ('wrapping_sub',):
            return (v - a) % (1 << 64) if conc else simp(x - y)
        if method in ('wrapping_add',):
            return (v + a) % (1 << 64) if conc else simp(x + y)
        if method == 'checked_sub':
            if conc:
                return some(v - a) if v >= a else NONE
            return Union([(simp(z3.UGE(x, y)), some(simp(x - y))), (simp(z3.ULT(x, y)), NONE)])
        if method == 'checked_add':
            return some(v + a) if conc else some(simp(x + y))
        if method == 'min':
            return min(v, a) if conc else simp(z3.If(z3.ULT(x, y), x, y))
        if method == 'max':
            return max(v, a) if conc else simp(z3.If(z3.ULT(x, y), y, x))
        if method == 'pow' and conc:
            return v ** a
        if method == 'is_power_of_two' and isinstance(v, int):
            return v > 0 and (v & (v - 1)) == 0
        return NotImplemented

    # --- Option
    def m_option(self, ref, v, method, args, node):
        I = self.I
        is_some = v.variant == 'Some'
        x = v.payload.get(0)
        if method == 'unwrap' or method == 'expect':
            if not is_some:
                raise self._panic('called `Option::unwrap()` on a `None` value', node)
            return x
        if method == 'is_some':
            return is_some
        if method == 'is_none':
            return not is_some
        if method == 'take':
            I.store_at(ref, NONE)
            return v
        if method in ('as_ref', 'as_deref', 'cloned', 'copied'):
            return v
        if method == 'as_mut':
            if is_some:
                return some(Ref(ref.addr, ref.path + (('p', 'Some', 0),)))
            return v
        if method == 'map':
            return some(I.call_value(args[0], [x], node)) if is_some else NONE
        if method == 'and_then':
            return I.call_value(args[0], [x], node) if is_some else NONE
        if method == 'filter':
            if is_some and I.branch(I.deref(I.call_value(args[0], [x], node))):
                return v
            return NONE
        if method == 'unwrap_or':
            return x if is_some else args[0]
        if method == 'unwrap_or_else':
            return x if is_some else I.call_value(args[0], [], node)
        if method == 'unwrap_or_default':
            if is_some:
                return x
            if hasattr(v, 'default'):
                return v.default
            raise Unsupported('unwrap_or_default on None', node)
        if method == 'ok_or_else':
            return ok(x) if is_some else err(I.call_value(args[0], [], node))
        if method == 'ok_or':
            return ok(x) if is_some else err(args[0])
        if method == 'map_or':
            return I.call_value(args[1], [x], node) if is_some else args[0]
        if method == 'map_or_else':
            return I.call_value(args[1], [x], node) if is_some else I.call_value(args[0], [], node)
        if method == 'is_none_or':
            return I.deref(I.call_value(args[0], [x], node)) if is_some else True
        if method == 'is_some_and':
            return I.deref(I.call_value(args[0], [x], node)) if is_some else False
        if method in ('iter', 'into_iter'):
            return self.mk_iter([(True, x)] if is_some else [])
        if method == 'or_else':
            return v if is_some else I.call_value(args[0], [], node)
        if method == 'or':
            return v if is_some else args[0]
        if method in ('context', 'with_context'):
            if is_some:
                return ok(x)
            msg = args[0] if method == 'context' else I.call_value(args[0], [], node)
            return err(Opaque('Error', msg=self.to_display(msg) if not isinstance(msg, str) else msg, site=node['line'], file=node['_file']))
        if method == 'insert':
            I.store_at(ref, some(args[0]))
            return Ref(ref.addr, ref.path + (('p', 'Some', 0),))
        if method in ('get_or_insert_with', 'get_or_insert'):
            if not is_some:
                nv = I.call_value(args[0], [], node) if method == 'get_or_insert_with' else args[0]
                I.store_at(ref, some(nv))
            return Ref(ref.addr, ref.path + (('p', 'Some', 0),))
        if method == 'replace':
            I.store_at(ref, some(args[0]))
            return v
        if method == 'ok':
            return v
        if method == 'flatten':
            return x if is_some else NONE
        if method == 'to_str':   # Option<&OsStr>? not here
            pass
        raise Unsupported('Option::%s' % method, node)

    # --- Result
    def m_result(self, ref, v, method, args, node):
        I = self.I
        is_ok = v.variant == 'Ok'
        x = v.payload.get(0)
        if method in ('unwrap', 'expect'):
            if not is_ok:
                raise self._panic('called `Result::unwrap()` on an `Err` value', node)
            return x
        if method == 'unwrap_err':
            if is_ok:
                raise self._panic('unwrap_err on Ok', node)
            return x
        if method == 'is_ok':
            return is_ok
        if method == 'is_err':
            return not is_ok
        if method == 'ok':
            return some(x) if is_ok else NONE
        if method == 'err':
            return NONE if is_ok else some(x)
        if method == 'map':
            return ok(I.call_value(args[0], [x], node)) if is_ok else v
        if method == 'map_err':
            return v if is_ok else err(I.call_value(args[0], [x], node))
        if method == 'map_or':
            return I.call_value(args[1], [x], node) if is_ok else args[0]
        if method == 'map_or_else':
            return I.call_value(args[1], [x], node) if is_ok else I.call_value(args[0], [x], node)
        if method == 'and_then':
            return I.call_value(args[0], [x], node) if is_ok else v
        if method == 'or_else':
            return v if is_ok else I.call_value(args[0], [x], node)
        if method == 'unwrap_or':
            return x if is_ok else args[0]
        if method == 'unwrap_or_else':
            return x if is_ok else I.call_value(args[0], [x], node)
        if method == 'unwrap_or_default':
            if is_ok:
                return x
            raise Unsupported('unwrap_or_default on Err', node)
        if method in ('context', 'with_context'):
            if is_ok:
                return v
            if method == 'context':
                msg = args[0]
            else:
                msg = I.call_value(args[0], [], node)
            try:
                m = msg if isinstance(msg, str) else self.to_display(msg)
            except Unsupported:
                m = '<ctx>'
            e0 = I.deref(x)
            return err(Opaque('Error', msg=m, site=node['line'], file=node['_file'], source=e0))
        if method in ('as_ref', 'as_mut'):
            return v
        if method in ('iter', 'into_iter'):
            return self.mk_iter([(True, x)] if is_ok else [])
        raise Unsupported('Result::%s' % method, node)

    # --- sets
    def _set_len(self, s):
        gs = [g for g, _ in s.entries.values()]
        n = sum(1 for g in gs if g is True)
        sym = [g for g in gs if g is not True and g is not False]
        if not sym:
            return n
        t = z3.BitVecVal(n, INTW)
        for g in sym:
            t = t + z3.If(g, z3.BitVecVal(1, INTW), z3.BitVecVal(0, INTW))
        return simp(t)

    def _key(self, x, node):
        x = self.I.deref(x)
        if isinstance(x, Union):
            x = self.I.resolve_union(x)
        try:
            return key_of(x), x
        except Unsupported:
            raise Unsupported('symbolic value used as collection key', node)

    def m_set(self, ref, s, method, args, node):
        I = self.I
        if method == 'insert':
            k, x = self._key(args[0], node)
            g0 = s.entries.get(k, (False, None))[0]
            ent = dict(s.entries)
            ent[k] = (True, x)
            I.store_at(ref, RSet(ent, s.ordered))
            return b_not(g0)
        if method == 'remove':
            k, x = self._key(args[0], node)
            g0 = s.entries.get(k, (False, None))[0]
            ent = dict(s.entries)
            if k in ent:
                del ent[k]
            I.store_at(ref, RSet(ent, s.ordered))
            return g0
        if method == 'take':
            k, x = self._key(args[0], node)
            g0, x0 = s.entries.get(k, (False, None))
            ent = dict(s.entries)
            if k in ent:
                del ent[k]
            I.store_at(ref, RSet(ent, s.ordered))
            if g0 is False:
                return NONE
            if g0 is True:
                return some(x0)
            return Union([(g0, some(x0)), (b_not(g0), NONE)])
        if method == 'contains':
            k, x = self._key(args[0], node)
            return s.entries.get(k, (False, None))[0]
        if method == 'is_empty':
            return b_not(b_or(*[g for g, _ in s.entries.values()]))
        if method == 'len':
            return self._set_len(s)
        if method in ('iter', 'into_iter', 'drain'):
            items = self.iterate(s, node)
            if method == 'drain':
                I.store_at(ref, RSet(ordered=s.ordered))
            return self.mk_iter(items)
        if method == 'extend':
            ent = dict(s.entries)
            for g, x in self.iterate(args[0], node):
                k, xv = self._key(x, node)
                g0 = ent.get(k, (False, None))[0]
                ent[k] = (b_or(g0, g), xv)
            I.store_at(ref, RSet(ent, s.ordered))
            return UNIT
        if method == 'clear':
            I.store_at(ref, RSet(ordered=s.ordered))
            return UNIT
        if method == 'retain':
            ent = {}
            for k, (g, x) in s.entries.items():
                keep = I.deref(I.call_value(args[0], [x], node))
                ent[k] = (b_and(g, keep), x)
            I.store_at(ref, RSet(ent, s.ordered))
            return UNIT
        if method in ('is_subset', 'is_superset', 'is_disjoint', 'difference', 'union', 'intersection'):
            o = I.deref(args[0])
            if not isinstance(o, RSet):
                raise Unsupported('set op with %r' % (o,), node)
            a, b = (s, o)
            if method == 'is_superset':
                a, b = o, s
                method = 'is_subset'
            if method == 'is_subset':
                return b_and(*[b_or(b_not(g), b.entries.get(k, (False, None))[0]) for k, (g, _) in a.entries.items()])
            if method == 'is_disjoint':
                return b_and(*[b_not(b_and(g, b.entries.get(k, (False, None))[0])) for k, (g, _) in a.entries.items()])
            if method == 'difference':
                return self.mk_iter([(b_and(g, b_not(b.entries.get(k, (False, None))[0])), x) for k, (g, x) in a.entries.items()])
            if method == 'intersection':
                return self.mk_iter([(b_and(g, b.entries.get(k, (False, None))[0]), x) for k, (g, x) in a.entries.items()])
            if method == 'union':
                items = [(g, x) for k, (g, x) in a.entries.items()]
                items += [(b_and(g, b_not(a.entries.get(k, (False, None))[0])), x) for k, (g, x) in b.entries.items()]
                return self.mk_iter(items)
        raise Unsupported('HashSet::%s' % method, node)

    # --- maps
    def m_map(self, ref, m, method, args, node):
        I = self.I
        if method == 'insert':
            k, kv = self._key(args[0], node)
            old = m.entries.get(k)
            ent = dict(m.entries)
            ent[k] = (True, kv, args[1])
            I.store_at(ref, RMap(ent, m.ordered))
            if old is None or old[0] is False:
                return NONE
            if old[0] is True:
                return some(old[2])
            return Union([(old[0], some(old[2])), (b_not(old[0]), NONE)])
        if method in ('get', 'get_mut'):
            k, kv = self._key(args[0], node)
            e = m.entries.get(k)
            if e is None or e[0] is False:
                return NONE
            val = Ref(ref.addr, ref.path + (('k', k),)) if method == 'get_mut' else e[2]
            if e[0] is True:
                return some(val)
            return Union([(e[0], some(val)), (b_not(e[0]), NONE)])
        if method == 'get_key_value':
            k, kv = self._key(args[0], node)
            e = m.entries.get(k)
            if e is None or e[0] is False:
                return NONE
            pair = RTuple((e[1], e[2]))
            if e[0] is True:
                return some(pair)
            return Union([(e[0], some(pair)), (b_not(e[0]), NONE)])
        if method == 'contains_key':
            k, kv = self._key(args[0], node)
            e = m.entries.get(k)
            return e[0] if e else False
        if method in ('remove', 'remove_entry'):
            k, kv = self._key(args[0], node)
            e = m.entries.get(k)
            ent = dict(m.entries)
            if k in ent:
                del ent[k]
            I.store_at(ref, RMap(ent, m.ordered))
            if e is None or e[0] is False:
                return NONE
            val = e[2] if method == 'remove' else RTuple((e[1], e[2]))
            if e[0] is True:
                return some(val)
            return Union([(e[0], some(val)), (b_not(e[0]), NONE)])
        if method == 'is_empty':
            return b_not(b_or(*[e[0] for e in m.entries.values()]))
        if method == 'len':
            return self._set_len(RSet({k: (e[0], None) for k, e in m.entries.items()}))
        if method in ('iter', 'into_iter', 'iter_mut'):
            return self.mk_iter(self.iterate(m, node))
        if method in ('values', 'into_values'):
            return self.mk_iter([(g, v) for g, t in self.iterate(m, node) for v in [t.items[1]]])
        if method in ('keys', 'into_keys'):
            return self.mk_iter([(g, t.items[0]) for g, t in self.iterate(m, node)])
        if method == 'entry':
            k, kv = self._key(args[0], node)
            return Opaque('Entry', ref=ref, key=k, keyv=kv)
        if method == 'extend':
            ent = dict(m.entries)
            for g, t in self.iterate(args[0], node):
                t = I.deref(t)
                k, kv = self._key(t.items[0], node)
                if g is not True:
                    raise Unsupported('HashMap::extend with guarded items', node)
                ent[k] = (True, kv, t.items[1])
            I.store_at(ref, RMap(ent, m.ordered))
            return UNIT
        raise Unsupported('HashMap::%s' % method, node)

    # --- vectors
    def _end_present(self, items, from_back):
        """Index of the first (last) present item of a guarded sequence, or None; forks on symbolic presence."""
        I = self.I
        order = list(range(len(items)))
        if from_back:
            order.reverse()
        for j in order:
            g = items[j][0]
            if g is True or I.branch(g):
                return j
        return None

    def m_vec(self, ref, v, method, args, node):
        I = self.I
        if method in ('push', 'push_back'):
            I.store_at(ref, RVec(v.items + ((True, args[0]),)))
            return UNIT
        if method == 'push_front':
            I.store_at(ref, RVec(((True, args[0]),) + v.items))
            return UNIT
        if method in ('pop', 'pop_back', 'pop_front'):
            back = method != 'pop_front'
            j = self._end_present(v.items, back)
            if j is None:
                I.store_at(ref, RVec())
                return NONE
            # (the items skipped over are absent on this path)
            I.store_at(ref, RVec(v.items[:j] if back else v.items[j + 1:]))
            return some(v.items[j][1])
        if method in ('front', 'back', 'front_mut', 'back_mut') or (method in ('first', 'last') and not v.concrete()):
            j = self._end_present(v.items, method in ('back', 'back_mut', 'last'))
            return some(v.items[j][1]) if j is not None else NONE
        if method == 'len':
            return self._set_len(RSet({i: (g, None) for i, (g, _) in enumerate(v.items)}))
        if method == 'is_empty':
            return b_not(b_or(*[g for g, _ in v.items]))
        if method in ('iter', 'into_iter', 'iter_mut', 'drain'):
            if method == 'drain':
                I.store_at(ref, RVec())
            return self.mk_iter(v.items)
        if method in ('extend_from_slice', 'extend', 'append'):
            other = self.iterate(args[0], node)
            I.store_at(ref, RVec(v.items + tuple(other)))
            return UNIT
        if method == 'contains':
            x = args[0]
            return b_or(*[b_and(g, self.value_eq(y, x)) for g, y in v.items])
        if method == 'concat':
            out = []
            for g, part in v.items:
                if g is not True:
                    raise Unsupported('concat of guarded parts', node)
                out += list(self.iterate(part, node))
            return RVec(out)
        if method == 'join':
            sep = I.deref(args[0])
            return sep.join(self.to_display(x) for x in v.values())
        if method == 'first':
            vals = v.values()
            return some(vals[0]) if vals else NONE
        if method == 'last':
            vals = v.values()
            return some(vals[-1]) if vals else NONE
        if method == 'get':
            i = I.deref(args[0])
            vals = v.values()
            return some(vals[i]) if isinstance(i, int) and i < len(vals) else NONE
        if method == 'clear':
            I.store_at(ref, RVec())
            return UNIT
        if method in ('sort_by', 'sort_unstable_by', 'sort_by_key', 'sort_unstable_by_key', 'sort_by_cached_key'):
            import functools
            vals = v.values()
            if 'key' in method:
                keyed = [(I.deref(I.call_value(args[0], [x], node)), x) for x in vals]
                kk = lambda y: key_of(y) if isinstance(key_of(y), (str, int)) else repr(key_of(y))
                out = [x for _, x in sorted(keyed, key=lambda p_: kk(p_[0]))]
            else:
                def cmp_(a, b):
                    r = I.deref(I.call_value(args[0], [a, b], node))
                    if not (isinstance(r, REnum) and r.ty == 'Ordering'):
                        raise Unsupported('comparator result %r' % (r,), node)
                    return {'Less': -1, 'Equal': 0, 'Greater': 1}[r.variant]
                out = sorted(vals, key=functools.cmp_to_key(cmp_))
            I.store_at(ref, RVec.of(out))
            return UNIT
        if method in ('sort', 'sort_unstable', 'dedup'):
            vals = v.values()
            if method == 'dedup':
                out = []
                for x in vals:
                    if not out or key_of(out[-1]) != key_of(x):
                        out.append(x)
            else:
                out = sorted(vals, key=lambda x: key_of(x) if isinstance(key_of(x), str) else repr(key_of(x)))
            I.store_at(ref, RVec.of(out))
            return UNIT
        if method == 'retain':
            items = []
            for g, x in v.items:
                keep = I.deref(I.call_value(args[0], [x], node))
                items.append((b_and(g, keep), x))
            I.store_at(ref, RVec(items))
            return UNIT
        if method in ('starts_with', 'ends_with'):
            o = I.deref(args[0])
            a, b = v.values(), o.values()
            if len(b) > len(a):
                return False
            part = a[:len(b)] if method == 'starts_with' else a[len(a) - len(b):]
            return b_and(*[self.value_eq(x, y) for x, y in zip(part, b)])
        if method == 'remove':
            i = I.deref(args[0])
            vals = v.values()
            x = vals.pop(i)
            I.store_at(ref, RVec.of(vals))
            return x
        if method == 'insert':
            i = I.deref(args[0])
            vals = v.values()
            vals.insert(i, args[1])
            I.store_at(ref, RVec.of(vals))
            return UNIT
        raise Unsupported('Vec::%s' % method, node)

    # --- iterators
    def m_iter(self, ref, it, method, args, node):
        I = self.I
        items = list(it.get('items'))
        if method in ('iter', 'into_iter', 'cloned', 'copied', 'by_ref', 'rev') and method != 'rev':
            return it
        if method == 'rev':
            return self.mk_iter(reversed(items))
        if method == 'map':
            return self.mk_iter([(g, I.call_value(args[0], [x], node)) for g, x in self._forked(items)])
        if method == 'filter':
            out = []
            for g, x in self._forked(items):
                keep = I.deref(I.call_value(args[0], [x], node))
                out.append((b_and(g, keep), x))
            return self.mk_iter(out)
        if method == 'filter_map':
            out = []
            for g, x in self._forked(items):
                r = I.deref(I.call_value(args[0], [x], node))
                if isinstance(r, Union):
                    r = I.resolve_union(r)
                if r.variant == 'Some':
                    out.append((g, r.payload[0]))
            return self.mk_iter(out)
        if method == 'flat_map':
            out = []
            for g, x in self._forked(items):
                sub = I.call_value(args[0], [x], node)
                for g2, y in self.iterate(sub, node):
                    out.append((b_and(g, g2), y))
            return self.mk_iter(out)
        if method == 'flatten':
            out = []
            for g, x in items:
                for g2, y in self.iterate(x, node):
                    out.append((b_and(g, g2), y))
            return self.mk_iter(out)
        if method == 'enumerate':
            if not all(g is True for g, _ in items):
                raise Unsupported('enumerate over guarded items', node)
            return self.mk_iter([(True, RTuple((i, x))) for i, (_, x) in enumerate(items)])
        if method == 'zip':
            other = self.iterate(args[0], node)
            if not all(g is True for g, _ in items + list(other)):
                raise Unsupported('zip over guarded items', node)
            return self.mk_iter([(True, RTuple((x, y))) for (_, x), (_, y) in zip(items, other)])
        if method == 'chain':
            return self.mk_iter(items + list(self.iterate(args[0], node)))
        if method == 'collect':
            c = Opaque('Collected', items=tuple(items))
            tf = node.get('turbofish')
            if tf:
                return self.collect_as(c, _strip_ty(tf[0]))
            return c
        if method == 'any':
            for g, x in items:
                if g is not True and not I.branch(g):
                    continue
                if I.branch(I.deref(I.call_value(args[0], [x], node))):
                    return True
            return False
        if method == 'all':
            for g, x in items:
                if g is not True and not I.branch(g):
                    continue
                if not I.branch(I.deref(I.call_value(args[0], [x], node))):
                    return False
            return True
        if method in ('find', 'position'):
            for i, (g, x) in enumerate(items):
                if g is not True and not I.branch(g):
                    continue
                if I.branch(I.deref(I.call_value(args[0], [x], node))):
                    return some(x if method == 'find' else i)
            return NONE
        if method == 'find_map':
            for g, x in items:
                if g is not True and not I.branch(g):
                    continue
                r = I.deref(I.call_value(args[0], [x], node))
                if r.variant == 'Some':
                    return r
            return NONE
        if method == 'sorted':
            its = self._forked(items)
            return self.mk_iter(sorted(its, key=lambda gx: self._sort_key(I.deref(gx[1]), node)))
        if method in ('dedup', 'dedup_with_count', 'unique'):
            # itertools adaptors over certainly present, comparable elements (presence is resolved by forking first)
            its = self._forked(items)
            out = []
            for _, x in its:
                xv = I.deref(x)
                if method == 'unique':
                    if not any(self._concrete_eq(xv, I.deref(y), node) for _, y in out):
                        out.append((True, x))
                    continue
                if out and self._concrete_eq(xv, I.deref(out[-1][1] if method == 'dedup' else out[-1][1].items[1]), node):
                    if method == 'dedup_with_count':
                        c, e0 = out[-1][1].items
                        out[-1] = (True, RTuple((c + 1, e0)))
                    continue
                out.append((True, x if method == 'dedup' else RTuple((1, x))))
            return self.mk_iter(out)
        if method == 'count':
            return self._set_len(RSet({i: (g, None) for i, (g, _) in enumerate(items)}))
        if method == 'next':
            for i, (g, x) in enumerate(items):
                if g is not True and not I.branch(g):
                    continue
                I.store_at(ref, self.mk_iter(items[i + 1:]))
                return some(x)
            I.store_at(ref, self.mk_iter([]))
            return NONE
        if method == 'last':
            res = NONE
            for g, x in items:
                if g is not True and not I.branch(g):
                    continue
                res = some(x)
            return res
        if method in ('fold', 'try_fold'):
            acc = args[0]
            for g, x in items:
                if g is not True and not I.branch(g):
                    continue
                acc = I.call_value(args[1], [acc, x], node)
                if method == 'try_fold':
                    acc = I.deref(acc)
                    if acc.variant in ('Err', 'None'):
                        return acc
                    acc = acc.payload[0]
            return ok(acc) if method == 'try_fold' else acc
        if method == 'for_each':
            for g, x in items:
                if g is not True and not I.branch(g):
                    continue
                I.call_value(args[0], [x], node)
            return UNIT
        if method == 'skip':
            n = I.deref(args[0])
            return self.mk_iter(items[n:])
        if method == 'take':
            n = I.deref(args[0])
            return self.mk_iter(items[:n])
        if method == 'peekable':
            return it
        if method in ('len', 'size_hint'):
            return self._set_len(RSet({i: (g, None) for i, (g, _) in enumerate(items)}))
        if method == 'is_empty':
            return b_not(b_or(*[g for g, _ in items]))
        if method == 'join':
            sep = I.deref(args[0])
            return sep.join(self.to_display(x) for g, x in items)
        if method == 'unzip':
            a, b = [], []
            for g, x in items:
                x = I.deref(x)
                a.append((g, x.items[0]))
                b.append((g, x.items[1]))
            return RTuple((RVec(a), RVec(b)))
        if method == 'buffer_unordered':
            return Opaque('Stream', items=tuple(items))
        raise Unsupported('Iterator::%s' % method, node)

    def _sort_key(self, v, node):
        """Ord of concrete values: strings, integers, Option<..>, tuples and (by field order) structs of those."""
        if isinstance(v, bool):
            return (0, int(v))
        if isinstance(v, int):
            return (0, v)
        if isinstance(v, str):
            return (1, v.encode('utf-8', 'surrogatepass'))
        if isinstance(v, REnum) and v.ty == 'Option':
            return (2, 0) if v.variant == 'None' else (2, 1, self._sort_key(self.I.deref(v.payload[0]), node))
        if isinstance(v, RTuple):
            return (3, tuple(self._sort_key(self.I.deref(x), node) for x in v.items))
        if isinstance(v, RStruct):
            return (4, tuple(self._sort_key(self.I.deref(x), node) for x in v.fields.values()))
        raise Unsupported('ordering of %r' % (v,), node)

    def _concrete_eq(self, a, b, node):
        r = self.value_eq(a, b)
        if r is True or r is False:
            return r
        if z3.is_true(r):
            return True
        if z3.is_false(r):
            return False
        return self.I.branch(r)

    def _forked(self, items):
        """Resolve symbolic presence of items by forking (used where a closure is applied to the element)."""
        out = []
        for g, x in items:
            if g is not True:
                if not self.I.branch(g):
                    continue
            out.append((True, x))
        return out

    # --- strings / paths
    def m_str(self, ref, s, method, args, node):
        I = self.I
        a0 = I.deref(args[0]) if args else None

        def pat(x):
            if isinstance(x, Opaque) and x.tag == 'char':
                return x.get('c')
            if isinstance(x, str):
                return x
            raise Unsupported('string pattern %r' % (x,), node)
        if method == 'split':
            return self.mk_iter([(True, p) for p in s.split(pat(a0))])
        if method == 'splitn':
            return self.mk_iter([(True, p) for p in s.split(pat(I.deref(args[1])), a0 - 1)])
        if method == 'starts_with':
            return s.startswith(pat(a0))
        if method == 'ends_with':
            return s.endswith(pat(a0))
        if method == 'contains':
            return pat(a0) in s
        if method == 'is_empty':
            return s == ''
        if method == 'len':
            return len(s.encode())
        if method in ('to_string', 'to_owned', 'into_string', 'display', 'to_lowercase') or method in ('trim',):
            if method == 'trim':
                return s.strip()
            if method == 'to_lowercase':
                return s.lower()
            return s
        if method == 'to_str':
            # OS strings that are not valid UTF-8 are represented with surrogate escapes (as Python does)
            if any(0xDC80 <= ord(c) <= 0xDCFF for c in s):
                return NONE
            return some(s)
        if method == 'to_string_lossy':
            return ''.join('\ufffd' if 0xDC80 <= ord(c) <= 0xDCFF else c for c in s)
        if method == 'push_str':
            I.store_at(ref, s + a0)
            return UNIT
        if method == 'push':
            if isinstance(a0, Opaque) and a0.tag == 'char':
                I.store_at(ref, s + a0.get('c'))
                return UNIT
            # PathBuf::push
            I.store_at(ref, self.path_join(s, a0))
            return UNIT
        if method == 'join':
            return self.path_join(s, a0)
        if method == 'file_name':
            p = s.rstrip('/')
            if p == '' or p.endswith('..'):
                return NONE
            return some(p.split('/')[-1])
        if method == 'parent':
            p = s.rstrip('/')
            if '/' not in p:
                return some('') if p else NONE
            par = p.rsplit('/', 1)[0]
            return some(par if par else '/')
        if method == 'extension':
            fn = s.rstrip('/').split('/')[-1]
            if '.' in fn[1:]:
                return some(fn.rsplit('.', 1)[1])
            return NONE
        if method == 'components':
            comps = []
            if s.startswith('/'):
                comps.append(REnum('Component', 'RootDir'))
            for part in s.split('/'):
                if part == '' or part == '.':
                    continue
                if part == '..':
                    comps.append(REnum('Component', 'ParentDir'))
                else:
                    comps.append(REnum('Component', 'Normal', {0: part}))
            return self.mk_iter([(True, c) for c in comps])
        if method == 'is_absolute':
            return s.startswith('/')
        if method in ('chars',):
            return self.mk_iter([(True, Opaque('char', c=c)) for c in s])
        if method == 'bytes' or method == 'as_bytes':
            return RVec.of(list(s.encode()))
        if method == 'strip_prefix':
            p = pat(a0)
            return some(s[len(p):]) if s.startswith(p) else NONE
        if method == 'strip_suffix':
            p = pat(a0)
            return some(s[:len(s) - len(p)]) if s.endswith(p) else NONE
        if method == 'replace':
            return s.replace(pat(a0), pat(I.deref(args[1])))
        if method == 'find':
            i = s.find(pat(a0))
            return some(i) if i >= 0 else NONE
        if method == 'parse':
            return ok(int(s)) if s.isdigit() else err(Opaque('Error', msg='parse'))
        if method in ('exists', 'is_file', 'is_dir', 'metadata', 'canonicalize', 'read_dir', 'symlink_metadata'):
            return I.world.path_query(I, s, method, node)
        if method == 'with_extension':
            base = s.rsplit('.', 1)[0] if '.' in s.split('/')[-1][1:] else s
            return base + ('.' + a0 if a0 else '')
        if method == 'eq':
            return s == a0
        if method in ('cmp', 'partial_cmp') and isinstance(a0, str):
            # paths compare component by component, strings byte by byte
            ka, kb = (s.split('/'), a0.split('/')) if ('/' in s or '/' in a0) else (s.encode('utf-8', 'surrogatepass'), a0.encode('utf-8', 'surrogatepass'))
            o = REnum('Ordering', 'Less' if ka < kb else ('Greater' if ka > kb else 'Equal'))
            return o if method == 'cmp' else some(o)
        raise Unsupported('str/Path::%s' % method, node)

    def path_join(self, base, rel):
        if not isinstance(rel, str):
            raise Unsupported('path join with %r' % (rel,))
        if rel.startswith('/'):
            return rel
        if base == '' or base.endswith('/'):
            return base + rel
        if rel == '':
            return base + '/'
        return base + '/' + rel

    # --- opaque library objects
    def m_opaque(self, ref, v, method, args, node):
        I = self.I
        W = I.world
        tag = v.tag
        if tag == 'NonZeroUsize' and method == 'get':
            return v.get('n')
        if tag in ('Sender', 'Receiver') and v.get('shared'):
            # a bounded channel in a static used as a pool of slots: send = take a slot (may wait for other targets), recv = give one back
            if tag == 'Sender' and method == 'send':
                return Opaque('Future', kind='shared_acquire', name=v.get('shared'), chan=v.get('chan'))
            if tag == 'Receiver' and method in ('try_recv', 'recv'):
                gids = [g for g, nm in I.held.items() if nm == v.get('shared')]
                if gids:
                    g = gids[-1]
                    I.held.pop(g)
                    I.effect('unlock', name=v.get('shared'), gid=g)
                    return ok(UNIT) if method == 'try_recv' else Opaque('Future', kind='ready', value=ok(UNIT))
                return err(REnum('TryRecvError', 'Empty')) if method == 'try_recv' else Opaque('Future', kind='ready', value=err(Opaque('RecvError')))
            raise Unsupported('%s::%s on a channel living in a static' % (tag, method), node)
        if tag == 'Sender':
            if method == 'send':
                return Opaque('Future', kind='send', chan=v.get('chan'), msg=args[0])
            if method == 'try_send':
                return W.try_send(I, v.get('chan'), args[0], node)
            if method in ('is_closed', 'is_full', 'is_empty', 'len'):
                return W.chan_query(I, v.get('chan'), method, node)
            if method == 'close':
                return W.chan_close(I, v.get('chan'), node)
        if tag == 'Receiver':
            if method in ('next', 'recv'):
                return Opaque('Future', kind=method, chan=v.get('chan'))
            if method == 'try_recv':
                return W.try_recv(I, v.get('chan'), node)
            if method in ('is_closed', 'is_full', 'is_empty', 'len'):
                return W.chan_query(I, v.get('chan'), method, node)
            if method == 'close':
                return W.chan_close(I, v.get('chan'), node)
        if tag == 'SyncObj':
            if method in ('lock', 'read', 'write', 'acquire', 'acquire_arc', 'lock_arc', 'try_lock', 'try_read', 'try_write', 'wait'):
                # single-task exploration: the acquisition succeeds; what matters is what happens while it is held
                I.guard_seq += 1
                gid = I.guard_seq
                I.held[gid] = v.get('shared')
                I.effect('lock', name=v.get('shared'), obj=v.get('kind'), how=method, gid=gid)
                g = Opaque('Guard', gid=gid, name=v.get('shared'), inner=v.get('inner'))
                return some(g) if method.startswith('try_') else g
            if method in ('clone',):
                return v
        if tag == 'Guard':
            if method in ('unwrap', 'expect'):
                return v
        if tag == 'Fuse':
            if method == 'set':
                I.store_at(ref, I.deref(args[0]) if not isinstance(I.deref(args[0]), Opaque) or I.deref(args[0]).tag != 'Future' else Opaque('Fuse', inner=I.deref(args[0])))
                return UNIT
            if method == 'is_terminated':
                return v.get('inner') is None
        if tag == 'Future':
            if method in ('fuse', 'boxed', 'boxed_local'):
                return v
            if method == 'is_terminated':
                return False
        if tag == 'Command':
            if method == 'arg':
                nv = v.with_(args=v.get('args') + (I.deref(args[0]),))
                I.store_at(ref, nv)
                return ref
            if method == 'args':
                nv = v.with_(args=v.get('args') + tuple(I.deref(x) for _, x in self.iterate(args[0], node)))
                I.store_at(ref, nv)
                return ref
            if method == 'current_dir':
                nv = v.with_(dir=I.deref(args[0]))
                I.store_at(ref, nv)
                return ref
            if method in ('stdout', 'stderr', 'stdin', 'env', 'envs', 'kill_on_drop'):
                return ref
            if method == 'spawn':
                return W.spawn_process(I, v, node)
            if method == 'output':
                return Opaque('Future', kind='output', cmd=v)
            if method == 'status':
                return Opaque('Future', kind='output_status', cmd=v)
        if tag == 'Child':
            if method == 'kill':
                return W.kill_process(I, v.get('proc'), node)
            if method == 'status':
                return Opaque('Future', kind='status', proc=v.get('proc'))
            if method == 'id':
                return 0
        if tag == 'ExitStatus':
            if method == 'success':
                return v.get('success')
            if method == 'code':
                # Some(0) on success; otherwise killed by a signal (None) or a non-zero code (environment choice)
                succ = v.get('success')
                if I.branch(succ):
                    return some(0)
                if I.branch(I.fresh('killed_by_signal')):
                    from .values import RNoneDefault
                    return RNoneDefault(0)
                code = I.fresh('exit_code', 'bv', 32)
                I.pc.append(code != 0)
                return some(code)
            if method == 'signal':
                if I.branch(v.get('success')):
                    return NONE
                if I.branch(I.fresh('killed_by_signal')):
                    return some(9)
                return NONE
        if tag == 'Output':
            pass
        if tag == 'Instant':
            if method == 'elapsed':
                # time elapsed since an earlier instant: any non-negative amount (environment choice)
                return Opaque('Duration', t=I.fresh('elapsed', 'bv', 64))
            if method in ('duration_since', 'saturating_duration_since'):
                return Opaque('Duration', t=I.fresh('elapsed', 'bv', 64))
            if method == 'checked_duration_since':
                return some(Opaque('Duration', t=I.fresh('elapsed', 'bv', 64)))
        if tag == 'Duration':
            if method in ('as_millis', 'as_secs', 'as_nanos', 'as_micros'):
                return v.get('t')
        if tag == 'SystemTime':
            if method == 'duration_since':
                return ok(Opaque('Duration', t=v.get('t')))
        if tag == 'Error' or tag == 'IoError':
            if method == 'context':
                m = args[0] if isinstance(args[0], str) else self.to_display(args[0])
                return Opaque('Error', msg=m, site=node['line'], file=node['_file'], source=v)
            if method == 'kind':
                return v.get('kind', REnum('ErrorKind', 'Other'))
            if method == 'to_string':
                return v.get('msg', '<err>')
        if tag == 'Entry':
            mref = v.get('ref')
            m = I.load(mref)
            k = v.get('key')
            if method == 'and_modify':
                e = m.entries.get(k)
                if e is not None and e[0] is not False:
                    if e[0] is not True:
                        raise Unsupported('entry() on symbolic-presence key', node)
                    I.call_value(args[0], [Ref(mref.addr, mref.path + (('k', k),))], node)
                return v
            if method in ('or_insert_with', 'or_insert', 'or_default'):
                e = m.entries.get(k)
                if e is None or e[0] is False:
                    if method == 'or_insert_with':
                        nv = I.call_value(args[0], [], node)
                    elif method == 'or_insert':
                        nv = args[0]
                    else:
                        # the value type is not known here: a lazily typed default, fixed by the first method applied to it
                        same = [x[2] for x in m.entries.values() if x[0] is not False]
                        proto_ = same[0] if same else None
                        nv = (RSet(ordered=proto_.ordered) if isinstance(proto_, RSet) else RMap(ordered=proto_.ordered) if isinstance(proto_, RMap)
                              else RVec() if isinstance(proto_, RVec) else '' if isinstance(proto_, str) else 0 if isinstance(proto_, int) and not isinstance(proto_, bool)
                              else Opaque('DefaultPending'))
                    ent = dict(m.entries)
                    ent[k] = (True, v.get('keyv'), nv)
                    I.store_at(mref, RMap(ent, m.ordered))
                elif e[0] is not True:
                    raise Unsupported('entry() on symbolic-presence key', node)
                return Ref(mref.addr, mref.path + (('k', k),))
        if tag == 'Regex':
            s = I.deref(args[0]) if args else None
            if method == 'is_match':
                return re.search(self._py_regex(v.get('pattern')), s) is not None
            if method == 'captures':
                m = re.search(self._py_regex(v.get('pattern')), s)
                if m is None:
                    return NONE
                return some(Opaque('Captures', groups=tuple(m.group(i) for i in range(0, (m.re.groups or 0) + 1))))
        if tag == 'Captures':
            if method == 'name':
                raise Unsupported('named capture groups', node)
            if method == 'len':
                return len(v.get('groups'))
            if method == 'get':
                i = I.deref(args[0])
                g = v.get('groups')
                if i < len(g) and g[i] is not None:
                    return some(Opaque('Match', s=g[i]))
                return NONE
        if tag == 'Match':
            if method == 'as_str':
                return v.get('s')
        if tag == 'Formatter':
            if method == 'write_str':
                I.store_at(ref, v.with_(buf=v.get('buf') + I.deref(args[0])))
                return ok(UNIT)
            if method == 'write_fmt':
                I.store_at(ref, v.with_(buf=v.get('buf') + I.deref(args[0])))
                return ok(UNIT)
        if tag == 'JoinHandle':
            pass
        if tag == 'NotifyConfig':
            if method == 'with_poll_interval':
                return v
        if tag == 'char':
            c = v.get('c')
            if method == 'is_alphanumeric':
                return c.isalnum()
            if method == 'is_ascii_alphanumeric':
                return c.isalnum() and ord(c) < 128
            if method == 'is_whitespace':
                return c.isspace()
        if tag == 'IntoPending':
            return self.call_method(ref, v.get('value'), method, args, node)
        return NotImplemented

    def _py_regex(self, pat):
        # Rust regex \w is Unicode-aware like Python's str patterns; anchors identical. Fail closed on exotic syntax.
        if re.search(r'\\p\{|\(\?[a-zA-Z]', pat):
            raise Unsupported('regex syntax %r' % pat)
        return pat
