"""Step summaries of coroutines, computed by symbolic execution of the real source.

LoopCoroutine: an async fn whose suspensions are `select!`s inside loops (actors, the main loops).
  state  = locals at the select (template with symbolic slots, inferred by widening)
  event  = (arm, value)            value symbolic, supplied by the driver
  result = for every feasible path: condition, post-state slots, ordered effects, outcome
StraightCoroutine: an async computation with finitely many suspensions and no loop around them
  (the build future `incremental::run(.., build_target(..))`), summarised as a tree of phases by
  trace replay.
"""
import time

import z3

from .interp import Frame, Interp
from .prog import Unsupported
from .tmpl import Inst, NeedWiden, describe, from_value, widen
from .values import Opaque, Ref, Union, b_and, simp


class PathSum:
    def __init__(self, cond, outcome, post, effects, value=None, site=None, info=None, panic=None):
        self.cond = cond          # z3 Bool / True
        self.outcome = outcome    # 'loop' (suspended at the same select) | 'return' | 'panic' | 'suspend' (elsewhere)
        self.post = post          # {slot: term} when outcome == 'loop'
        self.effects = effects    # [(kind, data)]
        self.value = value
        self.site = site
        self.info = info
        self.panic = panic


class LoopCoroutine:
    def __init__(self, prog, world, fd, start, stubs=None, name='co', event_value=None, max_iter=12):
        """start(I) -> runs the coroutine from its beginning on interpreter I (returns its value)."""
        self.prog = prog
        self.world = world
        self.fd = fd
        self.start = start
        self.name = name
        self.event_value = event_value
        self.I = Interp(prog, world, stubs or {})
        self.max_iter = max_iter
        self.stats = {'paths': 0, 'iterations': 0, 'time': 0.0}

    def _init(self):
        self.world.reset()
        self.I.frames.append(Frame(None, (), None))

    def initial(self):
        """Run from the start to the first suspension(s). Returns list of raw paths."""
        t0 = time.time()
        paths = self.I.explore(lambda: self.start(self.I), self._init)
        self.stats['paths'] += len(paths)
        self.stats['time'] += time.time() - t0
        return paths

    def build(self):
        """Compute the state template (fixpoint) and the step summaries of every arm."""
        init_paths = self.initial()
        sus = [p for p in init_paths if p.outcome == 'suspend']
        if not sus:
            raise Unsupported('%s never suspends' % self.name)
        sites = {p.suspend.site for p in sus}
        if len(sites) != 1:
            raise Unsupported('%s: several distinct first suspension sites' % self.name)
        self.site = sites.pop()
        self.init_paths = init_paths
        # state = variables of the coroutine's own frame (the innermost frame whose fd is self.fd)
        tmpl = None
        for p in sus:
            env = self._env_of(p)
            tmpl = from_value(env) if tmpl is None else widen(tmpl, env)[0]
        self.arms_desc = sus[0].suspend.info['arms']
        self.select_node = sus[0].suspend.info['node']
        for it in range(self.max_iter):
            self.stats['iterations'] += 1
            inst = Inst(tmpl, self.name)
            self._pending_widen = []
            steps = self._all_steps(inst)
            if self._pending_widen:
                anych = False
                for env, why in self._pending_widen:
                    tmpl, ch = widen(tmpl, env)
                    anych = anych or ch
                if not anych:
                    raise Unsupported('%s: template widening made no progress: %s' % (self.name, self._pending_widen[0][1]))
                self.widen_log = getattr(self, 'widen_log', []) + [w for _, w in self._pending_widen[:3]]
                continue
            self.tmpl = tmpl
            self.inst = inst
            self.steps = steps
            # initial state in terms of slots
            self.init = []
            for p in sus:
                try:
                    self.init.append(PathSum(p.cond(), 'loop', inst.extract(self._env_of(p)), p.effects))
                except NeedWiden as w:
                    raise Unsupported('%s: initial state not covered by its own template: %s' % (self.name, w))
            for p in init_paths:
                if p.outcome != 'suspend':
                    self.init.append(PathSum(p.cond(), p.outcome, None, p.effects, value=p.value, panic=p.value if p.outcome == 'panic' else None))
            return self
        raise Unsupported('%s: state template did not reach a fixpoint in %d iterations' % (self.name, self.max_iter))

    def _env_of(self, p):
        from .values import RStruct
        frames = p.frames
        fr = None
        for f in reversed(frames):
            if f.fd is self.fd:
                fr = f
                break
        if fr is None:
            raise Unsupported('%s: suspended outside its own frame' % self.name)
        env = {}
        for sc in fr.scopes:
            for n, a in sc.items():
                v = p.store[a]
                if v is None:
                    continue
                if isinstance(v, Ref):
                    # a reference held across the suspension: keep the referent by value (no aliasing assumed)
                    inner = p.store[v.addr]
                    for pe in v.path:
                        inner = self.I._proj(inner, pe)
                    if isinstance(inner, Ref):
                        raise Unsupported('%s: nested reference in coroutine state' % self.name)
                    v = RStruct('$ref', {0: inner})
                env[n] = v
        return RStruct('$env', env)

    def _all_steps(self, inst):
        steps = {}
        for ai, arm in enumerate(self.arms_desc):
            vals = self.event_value(self, ai, arm)
            if vals is None:
                continue
            steps[ai] = self._step(inst, ai, vals)
        return steps

    def _step(self, inst, ai, ev):
        """ev: {'value': symbolic value bound to the arm pattern, 'params': [...], 'pre': callable(I) or None}"""
        I = self.I
        env = inst.value

        def init():
            self._init()
            if ev.get('world_pre'):
                ev['world_pre'](self.world)

        def thunk():
            return I.resume_in_frame(self.fd, dict(env.fields), self.site, ai, ev['value'])
        t0 = time.time()
        I.solver.reset()
        for c in inst.constraints + ev.get('constraints', []):
            I.solver.add(c)
        paths = I.explore(thunk, init)
        self.stats['paths'] += len(paths)
        self.stats['time'] += time.time() - t0
        out = []
        for p in paths:
            if p.outcome == 'suspend' and p.suspend.site == self.site:
                penv = self._env_of(p)
                try:
                    post = inst.extract(penv)
                except NeedWiden as w:
                    self._pending_widen.append((penv, str(w)))
                    continue
                out.append(PathSum(p.cond(), 'loop', post, p.effects))
            elif p.outcome == 'suspend':
                out.append(PathSum(p.cond(), 'suspend', None, p.effects, site=p.suspend.site, info=p.suspend.info))
            elif p.outcome == 'return':
                out.append(PathSum(p.cond(), 'return', None, p.effects, value=p.value))
            else:
                out.append(PathSum(p.cond(), 'panic', None, p.effects, panic=p.value))
        return out


class NeedWidenEnv(Exception):
    def __init__(self, env, why):
        self.env, self.why = env, why


class StraightCoroutine:
    """Tree of phases of a loop-free coroutine, by trace replay."""

    class Node:
        def __init__(self, trace, decisions, site, info, n_effects):
            self.trace = trace            # [(site, arm, value)] consumed so far
            self.decisions = decisions    # decision prefix leading here
            self.site = site
            self.info = info
            self.n_effects = n_effects
            self.edges = {}               # event key -> [PathSum] (with .next = Node for suspend outcomes)

    def __init__(self, prog, world, start, stubs=None, name='fut', event_values=None, max_nodes=12):
        self.prog = prog
        self.world = world
        self.start = start
        self.name = name
        self.event_values = event_values
        self.I = Interp(prog, world, stubs or {})
        self.max_nodes = max_nodes
        self.nodes = []
        self.stats = {'paths': 0, 'time': 0.0}

    def _init(self):
        self.world.reset()
        self.I.frames.append(Frame(None, (), None))

    def build(self):
        I = self.I
        t0 = time.time()
        paths = I.explore(lambda: self.start(I), self._init)
        self.stats['paths'] += len(paths)
        self.first = self._summarise(paths, [], 0)
        self.stats['time'] += time.time() - t0
        return self

    def _summarise(self, paths, trace, skip_effects):
        out = []
        for p in paths:
            eff = p.effects[skip_effects:]
            if p.outcome == 'suspend':
                node = StraightCoroutine.Node(list(trace), [(d, []) for d in p.decisions], p.suspend.site, p.suspend.info, len(p.effects))
                node.pc = list(p.pc)
                self.nodes.append(node)
                if len(self.nodes) > self.max_nodes:
                    raise Unsupported('%s: too many suspension phases' % self.name)
                ps = PathSum(p.cond(), 'suspend', None, eff, site=p.suspend.site, info=p.suspend.info)
                ps.next = node
                out.append(ps)
                self._expand(node)
            elif p.outcome == 'return':
                out.append(PathSum(p.cond(), 'return', None, eff, value=p.value))
            else:
                out.append(PathSum(p.cond(), 'panic', None, eff, panic=p.value))
        return out

    def _expand(self, node):
        I = self.I
        for key, arm, value, extra in self.event_values(self, node):
            trace = node.trace + [(node.site, arm, value)]

            def init():
                self._init()
                I.prefix = list(node.decisions)
                I.trace = trace

            # explore continuations: decisions up to the suspension are pinned
            paths = self._explore_pinned(node, trace)
            self.stats['paths'] += len(paths)
            sums = self._summarise(paths, trace, node.n_effects)
            # drop the prefix conjuncts (already implied by being in this phase)
            for s, p in zip(sums, paths):
                rest = p.pc[len(node.pc):]
                s.cond = b_and(*rest)
            node.edges[key] = sums

    def _explore_pinned(self, node, trace):
        I = self.I
        base = list(node.decisions)
        results = []
        prefix = list(base)
        while True:
            I.reset_path()
            I.prefix = prefix
            I.trace = trace
            self._init()
            from .interp import InfeasibleEx, PanicEx, ReturnEx, SuspendEx, Path
            try:
                try:
                    v = self.start(I)
                    p = Path(list(I.pc), 'return', v, I.store, I.effects, I.frames)
                except ReturnEx as e:
                    p = Path(list(I.pc), 'return', e.value, I.store, I.effects, I.frames)
                except SuspendEx as e:
                    p = Path(list(I.pc), 'suspend', None, I.store, I.effects, e.frames, suspend=e)
                except PanicEx as e:
                    p = Path(list(I.pc), 'panic', e, I.store, I.effects, I.frames)
                p.decisions = [t[0] for t in I.trail]
                results.append(p)
            except InfeasibleEx:
                pass
            trail = I.trail
            while len(trail) > len(base) and not trail[-1][1]:
                trail.pop()
            if len(trail) <= len(base):
                break
            idx, rest = trail.pop()
            prefix = trail + [(rest[0], rest[1:])]
        return results
