"""Program index over the JSON AST produced by zx/front (syn).

Loads every .rs file under <repo>/src, assigns node ids, computes module paths,
indexes functions / impls / structs / enums / uses / consts per module and
resolves paths (crate::, super::, self::, Self, use-imports, glob imports).
"""
import hashlib
import json
import os
import subprocess

HERE = os.path.dirname(os.path.abspath(__file__))
FRONT = os.path.join(HERE, 'front', 'target', 'release', 'zxfront')
if not os.path.exists(FRONT) and os.path.exists('/verif/zx/front/target/release/zxfront'):
    FRONT = '/verif/zx/front/target/release/zxfront'     # running from a snapshot of /verif (vp run): use the built front end


class Unsupported(Exception):
    """The encoder met something it cannot translate faithfully: the check is inconclusive."""

    def __init__(self, what, node=None):
        self.what = what
        self.node = node
        loc = ''
        if isinstance(node, dict):
            loc = ' at %s:%s' % (node.get('_file', '?'), node.get('line', '?'))
        super().__init__('unsupported: %s%s' % (what, loc))


class FnDef:
    def __init__(self, node, module, impl_ty=None, trait=None):
        self.node = node
        self.name = node['name']
        self.module = module          # tuple of module path segments, e.g. ('engine','target_actor')
        self.impl_ty = impl_ty        # name of the Self type, or None
        self.trait = trait            # trait path string (e.g. 'fmt::Display') or None
        self.is_async = node['async']
        self.file = node.get('_file')

    @property
    def qname(self):
        parts = list(self.module)
        if self.impl_ty:
            parts.append(self.impl_ty)
        parts.append(self.name)
        return '::'.join(parts)

    def __repr__(self):
        return '<fn %s>' % self.qname


class Module:
    def __init__(self, path, file):
        self.path = path
        self.file = file
        self.fns = {}        # name -> FnDef (free functions)
        self.types = {}      # name -> struct/enum node
        self.consts = {}     # name -> node (Const) or ('lazy', expr, ty)
        self.uses = {}       # local name -> tuple path
        self.globs = []      # tuple paths of glob imports
        self.impls = []      # (self_ty, trait, [FnDef])
        self.children = set()
        self.aliases = {}    # type alias name -> type string


def _split_use(tree):
    """Parse the token string of a use tree into a list of (local_name, [segments]) and globs."""
    s = tree.replace(' ', '')
    out, globs = [], []

    def rec(prefix, s):
        # s is a use-tree string without spaces
        if s.startswith('{'):
            assert s.endswith('}')
            depth, cur, parts = 0, '', []
            for ch in s[1:-1]:
                if ch == '{':
                    depth += 1
                elif ch == '}':
                    depth -= 1
                if ch == ',' and depth == 0:
                    parts.append(cur)
                    cur = ''
                else:
                    cur += ch
            if cur:
                parts.append(cur)
            for p in parts:
                rec(prefix, p)
            return
        i = s.find('::')
        j = s.find('{')
        if i >= 0 and (j < 0 or i < j):
            rec(prefix + [s[:i]], s[i + 2:])
            return
        if s == '*':
            globs.append(prefix)
            return
        if 'as' in s and s.count('as') == 1 and not s.isidentifier():
            # "name as alias" lost its spaces: find split by trying
            k = s.find('as')
            name, alias = s[:k], s[k + 2:]
            out.append((alias, prefix + [name]))
            return
        if s == 'self':
            out.append((prefix[-1], prefix))
            return
        out.append((s, prefix + [s]))

    rec([], s)
    return out, globs


class Program:
    def __init__(self, repo='/repo'):
        self.repo = repo
        src = os.path.join(repo, 'src')
        files = []
        for d, _, fs in os.walk(src):
            for f in fs:
                if f.endswith('.rs'):
                    files.append(os.path.join(d, f))
        files.sort()
        self.files = files
        h = hashlib.sha256()
        for f in files:
            h.update(f.encode())
            h.update(open(f, 'rb').read())
        self.source_hash = h.hexdigest()
        out = subprocess.run([FRONT] + files, capture_output=True, text=True, check=True).stdout
        self.ast = json.loads(out)['files']
        self.modules = {}
        self._resolving = set()
        self.nid = 0
        self.unsupported_nodes = []
        for f in files:
            rel = os.path.relpath(f, src)
            parts = rel[:-3].split(os.sep)
            if parts[-1] in ('mod', 'main', 'lib'):
                parts = parts[:-1]
            path = tuple(parts)
            fa = self.ast[f]
            if 'error' in fa:
                raise Unsupported('parse error in %s: %s' % (rel, fa['error']))
            self._number(fa, rel)
            self._index_module(path, rel, fa['items'])
        # all functions by simple name
        self.fns_by_name = {}
        for m in self.modules.values():
            for fd in m.fns.values():
                self.fns_by_name.setdefault(fd.name, []).append(fd)
            for (_, _, fds) in m.impls:
                for fd in fds:
                    self.fns_by_name.setdefault(fd.name, []).append(fd)
        # types by simple name
        self.types_by_name = {}
        for m in self.modules.values():
            for n, t in m.types.items():
                self.types_by_name.setdefault(n, []).append((m.path, t))

    # ------------------------------------------------------------------
    def _number(self, x, file):
        if isinstance(x, dict):
            if 'k' in x:
                self.nid += 1
                x['_id'] = self.nid
                x['_file'] = file
                if x['k'] == 'Unsupported':
                    self.unsupported_nodes.append(x)
            for v in x.values():
                self._number(v, file)
        elif isinstance(x, list):
            for v in x:
                self._number(v, file)

    def _index_module(self, path, file, items):
        m = Module(path, file)
        self.modules[path] = m
        if path:
            parent = self.modules.get(path[:-1])
            if parent:
                parent.children.add(path[-1])
        for it in items:
            k = it['k']
            if k == 'Fn':
                m.fns[it['name']] = FnDef(it, path)
            elif k == 'Impl':
                ty = it['self_ty'].split('<')[0].strip().split('::')[-1].strip()
                tr = it['trait']['str'] if it['trait'] else None
                trn = it['trait'] if it['trait'] else None
                fds = [FnDef(f, path, ty, tr) for f in it['items'] if f['k'] == 'Fn']
                for fd in fds:
                    fd.trait_node = trn
                m.impls.append((ty, tr, fds))
            elif k in ('Struct', 'Enum'):
                m.types[it['name']] = it
            elif k == 'Const':
                m.consts[it['name']] = it
            elif k == 'TypeAlias':
                m.aliases[it['name']] = it['ty']
            elif k == 'Use':
                names, globs = _split_use(it['tree'])
                for (local, segs) in names:
                    m.uses[local] = tuple(segs)
                for g in globs:
                    m.globs.append(tuple(g))
            elif k == 'Mod':
                attrs = ' '.join(it.get('attrs', []))
                if 'cfg (test)' in attrs or 'cfg(test)' in attrs:
                    continue
                if it['items'] is not None:
                    self._index_module(path + (it['name'],), file, it['items'])
                else:
                    m.children.add(it['name'])
            elif k == 'ItemMacro':
                mac = it['mac']
                if mac['k'] == 'LazyStatic':
                    for ls in mac['statics']:
                        m.consts[ls['name']] = {'k': 'Lazy', 'expr': ls['expr'], 'ty': ls['ty'], 'name': ls['name']}

    # ------------------------------------------------------------------
    def abs_path(self, module, segs):
        """Resolve a path (list of idents) used inside `module` to an absolute tuple, or None if external."""
        segs = list(segs)
        if not segs:
            return None
        cur = module
        s0 = segs[0]
        if s0 == 'crate':
            return self._walk((), segs[1:])
        if s0 == 'self':
            return self._walk(cur, segs[1:])
        if s0 == 'super':
            base = cur
            while segs and segs[0] == 'super':
                base = base[:-1]
                segs = segs[1:]
            return self._walk(base, segs)
        m = self.modules.get(cur)
        if m is None:
            return None
        if s0 in m.fns or s0 in m.types or s0 in m.consts or s0 in m.aliases:
            return cur + tuple(segs)
        if s0 in m.children and (cur + (s0,)) in self.modules:
            return self._walk(cur + (s0,), segs[1:])
        if s0 in m.uses:
            tgt = m.uses[s0]
            key = (cur, s0)
            if key in self._resolving:
                return None
            self._resolving.add(key)
            try:
                if tgt[0] == s0 and tgt[0] not in ('crate', 'self', 'super') and (cur + (s0,)) not in self.modules:
                    # `use ext::ext` style: first segment names an external crate
                    return None
                r = self.abs_path(cur, list(tgt) + segs[1:])
            finally:
                self._resolving.discard(key)
            return r
        for g in m.globs:
            gm = self._glob_module(cur, g)
            if gm is not None and gm in self.modules:
                mm = self.modules[gm]
                if s0 in mm.fns or s0 in mm.types or s0 in mm.consts:
                    return gm + tuple(segs)
                if s0 in mm.uses:
                    r = self.abs_path(gm, segs)
                    if r is not None:
                        return r
        return None

    def _glob_module(self, cur, g):
        key = (cur, 'glob', g)
        if key in self._resolving:
            return None
        if g[0] not in ('crate', 'self', 'super') and g[0] not in self.modules[cur].children and g[0] not in self.modules[cur].uses:
            return None   # external crate glob (e.g. async_std::prelude::*)
        self._resolving.add(key)
        try:
            return self.abs_path(cur, list(g))
        finally:
            self._resolving.discard(key)

    def _walk(self, base, segs):
        """Follow segs from module `base` through child modules and re-exports."""
        cur = base
        segs = list(segs)
        while segs:
            m = self.modules.get(cur)
            if m is None:
                return cur + tuple(segs)
            s0 = segs[0]
            if (cur + (s0,)) in self.modules:
                cur = cur + (s0,)
                segs = segs[1:]
                continue
            if s0 in m.fns or s0 in m.types or s0 in m.consts or s0 in m.aliases:
                return cur + tuple(segs)
            if s0 in m.uses:
                return self.abs_path(cur, segs)
            for g in m.globs:
                gm = self._glob_module(cur, g)
                if gm is not None and gm in self.modules:
                    mm = self.modules[gm]
                    if s0 in mm.fns or s0 in mm.types or s0 in mm.consts:
                        return gm + tuple(segs)
            return None
        return cur

    def lookup_fn(self, module, segs, self_ty=None):
        """Find a user function for a call path written in `module`. Returns FnDef or None."""
        segs = list(segs)
        if segs and segs[0] == 'Self' and self_ty:
            segs[0] = self_ty
        if len(segs) == 1:
            ap = self.abs_path(module, segs)
            if ap is not None:
                m = self.modules.get(ap[:-1])
                if m and ap[-1] in m.fns:
                    return m.fns[ap[-1]]
            return None
        # Type::method or module::fn
        ap = self.abs_path(module, segs)
        if ap is not None:
            m = self.modules.get(ap[:-1])
            if m and ap[-1] in m.fns:
                return m.fns[ap[-1]]
            # ap[:-1] is a type path: module ap[:-2], type ap[-2]
            tm = self.modules.get(ap[:-2])
            if tm is not None and ap[-2] in tm.types or tm is not None and ap[-2] in tm.aliases:
                return self.lookup_method(ap[:-2], ap[-2], ap[-1])
        return None

    def lookup_method(self, tymod, tyname, method, trait=None):
        """Find method `method` of type `tyname` defined in module `tymod` (impls may live anywhere)."""
        cands = []
        for m in self.modules.values():
            for (ty, tr, fds) in m.impls:
                if ty != tyname:
                    continue
                # check that this impl's Self type resolves to (tymod, tyname)
                ap = self.abs_path(m.path, [ty])
                if ap is not None and ap != tymod + (tyname,):
                    continue
                for fd in fds:
                    if fd.name == method and (trait is None or (tr or '').endswith(trait)):
                        cands.append(fd)
        if len(cands) == 1:
            return cands[0]
        if len(cands) > 1:
            inherent = [c for c in cands if c.trait is None]
            if len(inherent) == 1:
                return inherent[0]
            raise Unsupported('ambiguous method %s::%s' % (tyname, method))
        return None

    def lookup_type(self, module, segs):
        ap = self.abs_path(module, list(segs))
        if not ap:
            return None
        m = self.modules.get(ap[:-1])
        if m and ap[-1] in m.types:
            return (ap[:-1], m.types[ap[-1]])
        return None

    def find_fn(self, qname):
        """Find a function by qualified-name suffix, e.g. 'build_target_actor::BuildTargetActor::run'."""
        want = qname.split('::')
        res = []
        for fds in self.fns_by_name.get(want[-1], []):
            full = fds.qname.split('::')
            if full[-len(want):] == want:
                res.append(fds)
        if len(res) == 1:
            return res[0]
        if not res:
            raise Unsupported('function %s not found in the source' % qname)
        raise Unsupported('function name %s is ambiguous: %s' % (qname, res))

    def fn_source_hash(self, fd):
        return hashlib.sha256(json.dumps(fd.node, sort_keys=True).encode()).hexdigest()[:16]
