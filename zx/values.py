"""Value model of the ZX symbolic executor.

Values are immutable Python objects whose leaves are Python constants or z3 terms.
Mutable state lives in a store (addr -> value); `Ref(addr, path)` is a (mutable) reference.
"""
import z3

from .prog import Unsupported

INTW = 16  # width used for small symbolic counters (lengths)


def is_sym(v):
    return isinstance(v, z3.ExprRef)


def is_boolish(v):
    return isinstance(v, bool) or (is_sym(v) and z3.is_bool(v))


def is_intish(v):
    return (isinstance(v, int) and not isinstance(v, bool)) or (is_sym(v) and z3.is_bv(v))


def zbool(v):
    return z3.BoolVal(v) if isinstance(v, bool) else v


def zint(v, w=INTW):
    if isinstance(v, int):
        return z3.BitVecVal(v, w)
    return v


def simp(t):
    if isinstance(t, bool):
        return t
    t = z3.simplify(t)
    if z3.is_true(t):
        return True
    if z3.is_false(t):
        return False
    return t


def b_and(*xs):
    ys = []
    for x in xs:
        if x is True:
            continue
        if x is False:
            return False
        ys.append(x)
    if not ys:
        return True
    if len(ys) == 1:
        return ys[0]
    return simp(z3.And(*ys))


def b_or(*xs):
    ys = []
    for x in xs:
        if x is False:
            continue
        if x is True:
            return True
        ys.append(x)
    if not ys:
        return False
    if len(ys) == 1:
        return ys[0]
    return simp(z3.Or(*ys))


def b_not(x):
    if isinstance(x, bool):
        return not x
    return simp(z3.Not(x))


def b_ite(c, a, b):
    if c is True:
        return a
    if c is False:
        return b
    if a is b:
        return a
    if is_boolish(a) and is_boolish(b):
        if isinstance(a, bool) and isinstance(b, bool) and a == b:
            return a
        return simp(z3.If(c, zbool(a), zbool(b)))
    if is_intish(a) and is_intish(b):
        if isinstance(a, int) and isinstance(b, int):
            if a == b:
                return a
            w = 64
        else:
            w = a.size() if is_sym(a) else b.size()
        return simp(z3.If(c, zint(a, w), zint(b, w)))
    raise Unsupported('ite over non-scalar leaves %r / %r' % (a, b))


class Unit:
    _inst = None

    def __new__(cls):
        if cls._inst is None:
            cls._inst = object.__new__(cls)
        return cls._inst

    def __repr__(self):
        return '()'


UNIT = Unit()


class RStruct:
    __slots__ = ('ty', 'fields')

    def __init__(self, ty, fields):
        self.ty = ty          # type name (simple)
        self.fields = fields  # dict name -> value (never mutated)

    def with_field(self, name, v):
        f = dict(self.fields)
        f[name] = v
        return RStruct(self.ty, f)

    def __repr__(self):
        return '%s{%s}' % (self.ty, ', '.join('%s: %r' % kv for kv in self.fields.items()))


class REnum:
    __slots__ = ('ty', 'variant', 'payload')

    def __init__(self, ty, variant, payload=None):
        self.ty = ty
        self.variant = variant
        self.payload = payload if payload is not None else {}   # dict: int index or field name -> value

    def with_payload(self, key, v):
        p = dict(self.payload)
        p[key] = v
        return REnum(self.ty, self.variant, p)

    def __repr__(self):
        if not self.payload:
            return '%s::%s' % (self.ty, self.variant)
        return '%s::%s(%s)' % (self.ty, self.variant, ', '.join('%s=%r' % kv if not isinstance(kv[0], int) else repr(kv[1]) for kv in self.payload.items()))


class RNoneDefault(REnum):
    """Option::None that remembers the Default of its payload type (for unwrap_or_default)."""
    __slots__ = ('default',)

    def __init__(self, default):
        REnum.__init__(self, 'Option', 'None')
        self.default = default


def some(v):
    return REnum('Option', 'Some', {0: v})


NONE = REnum('Option', 'None')


def ok(v):
    return REnum('Result', 'Ok', {0: v})


def err(v):
    return REnum('Result', 'Err', {0: v})


class RTuple:
    __slots__ = ('items',)

    def __init__(self, items):
        self.items = tuple(items)

    def __repr__(self):
        return '(%s)' % ', '.join(map(repr, self.items))


class RVec:
    """Ordered sequence of guarded items (guard True for ordinary vectors). kind: 'vec' | 'slice'."""
    __slots__ = ('items',)

    def __init__(self, items=()):
        self.items = tuple(items)   # (guard, value)

    @staticmethod
    def of(values):
        return RVec((True, v) for v in values)

    def concrete(self):
        return all(g is True for g, _ in self.items)

    def values(self):
        if not self.concrete():
            raise Unsupported('indexing/flattening a vector with symbolic presence')
        return [v for _, v in self.items]

    def __repr__(self):
        return '[%s]' % ', '.join((repr(v) if g is True else '%r?%r' % (g, v)) for g, v in self.items)


class RSet:
    """Set over concrete keys with (possibly symbolic) membership. ordered: BTreeSet (sorted iteration)."""
    __slots__ = ('entries', 'ordered')

    def __init__(self, entries=None, ordered=False):
        self.entries = entries or {}   # key -> (guard, value)
        self.ordered = ordered

    def __repr__(self):
        return '{%s}' % ', '.join((repr(v) if g is True else '%r?%r' % (g, v)) for g, v in self.entries.values())


class RMap:
    __slots__ = ('entries', 'ordered')

    def __init__(self, entries=None, ordered=False):
        self.entries = entries or {}   # key -> (guard, keyvalue, value)
        self.ordered = ordered

    def __repr__(self):
        return '{%s}' % ', '.join(('%r: %r' % (k, v) if g is True else '%r?%r: %r' % (g, k, v)) for g, k, v in self.entries.values())


class Union:
    """Symbolic choice between differently shaped values; guards are mutually exclusive and exhaustive."""
    __slots__ = ('alts',)

    def __init__(self, alts):
        self.alts = tuple(alts)  # (guard, value)

    def __repr__(self):
        return 'U(%s)' % ' | '.join('%r->%r' % a for a in self.alts)


class Ref:
    __slots__ = ('addr', 'path')

    def __init__(self, addr, path=()):
        self.addr = addr
        self.path = tuple(path)

    def __repr__(self):
        return '&%s%s' % (self.addr, ''.join('.%s' % (p[-1],) for p in self.path))


class Opaque:
    """Library object: tag + immutable data dict (e.g. Sender{chan}, Child{proc}, Error{msg}, Future{...})."""
    __slots__ = ('tag', 'data')

    def __init__(self, tag, **data):
        self.tag = tag
        self.data = data

    def get(self, k, d=None):
        return self.data.get(k, d)

    def with_(self, **kw):
        d = dict(self.data)
        d.update(kw)
        return Opaque(self.tag, **d)

    def __repr__(self):
        return '<%s %s>' % (self.tag, ' '.join('%s=%s' % (k, repr(v)[:200]) for k, v in self.data.items() if k not in ('node', 'scopes', 'module', 'self_ty')))


class Closure:
    __slots__ = ('node', 'scopes', 'module', 'self_ty', 'is_async')

    def __init__(self, node, scopes, module, self_ty, is_async=False):
        self.node = node
        self.scopes = scopes
        self.module = module
        self.self_ty = self_ty
        self.is_async = is_async

    def __repr__(self):
        return '<closure@%s>' % self.node.get('line')


class FnRef:
    """A path to a function used as a value (e.g. `.map(ToString::to_string)`)."""
    __slots__ = ('fd', 'name')

    def __init__(self, fd=None, name=None):
        self.fd = fd
        self.name = name

    def __repr__(self):
        return '<fnref %s>' % (self.fd.qname if self.fd else self.name)


def key_of(v):
    """Canonical hashable key of a concrete value (used for set/map keys and equality)."""
    if isinstance(v, (str, int, bool)):
        return v
    if v is UNIT:
        return ()
    if isinstance(v, RStruct):
        return (v.ty,) + tuple((k, key_of(x)) for k, x in sorted(v.fields.items(), key=lambda kv: str(kv[0])))
    if isinstance(v, REnum):
        return (v.ty, v.variant) + tuple((k, key_of(x)) for k, x in sorted(v.payload.items(), key=lambda kv: str(kv[0])))
    if isinstance(v, RTuple):
        return ('tuple',) + tuple(key_of(x) for x in v.items)
    if isinstance(v, RVec):
        return ('vec',) + tuple(key_of(x) for x in v.values())
    if isinstance(v, RSet):
        if all(g is True for g, _ in v.entries.values()):
            return ('set',) + tuple(sorted(map(repr, v.entries.keys())))
    if isinstance(v, Opaque):
        return (v.tag,) + tuple((k, key_of(x)) for k, x in sorted(v.data.items()))
    if isinstance(v, Ref):
        return ('ref', v.addr, v.path)
    if v is None:
        return None
    raise Unsupported('symbolic or unhashable value used as a key: %r' % (v,))


def shape_sig(v):
    """Structure of a value ignoring scalar leaf values (used to group samples)."""
    if isinstance(v, bool) or (is_sym(v) and z3.is_bool(v)):
        return 'bool'
    if is_intish(v):
        return 'int'
    if isinstance(v, str):
        return ('str', v)
    if isinstance(v, RStruct):
        return (v.ty,) + tuple((k, shape_sig(x)) for k, x in v.fields.items())
    if isinstance(v, REnum):
        return (v.ty, v.variant) + tuple((k, shape_sig(x)) for k, x in v.payload.items())
    if isinstance(v, RTuple):
        return ('tuple',) + tuple(shape_sig(x) for x in v.items)
    if isinstance(v, (RVec, RSet, RMap)):
        return type(v).__name__
    if isinstance(v, Opaque):
        return (v.tag,) + tuple((k, shape_sig(x)) for k, x in sorted(v.data.items()))
    if isinstance(v, Union):
        return ('U',) + tuple(shape_sig(x) for _, x in v.alts)
    return type(v).__name__


def merge(c, a, b):
    """Value equal to a when c holds and b otherwise."""
    if c is True:
        return a
    if c is False:
        return b
    if a is b:
        return a
    if (is_boolish(a) and is_boolish(b)) or (is_intish(a) and is_intish(b)):
        return b_ite(c, a, b)
    if isinstance(a, str) and isinstance(b, str) and a == b:
        return a
    if isinstance(a, Unit) and isinstance(b, Unit):
        return a
    if isinstance(a, RStruct) and isinstance(b, RStruct) and a.ty == b.ty and a.fields.keys() == b.fields.keys():
        return RStruct(a.ty, {k: merge(c, a.fields[k], b.fields[k]) for k in a.fields})
    if isinstance(a, REnum) and isinstance(b, REnum) and a.ty == b.ty and a.variant == b.variant and a.payload.keys() == b.payload.keys():
        return REnum(a.ty, a.variant, {k: merge(c, a.payload[k], b.payload[k]) for k in a.payload})
    if isinstance(a, RTuple) and isinstance(b, RTuple) and len(a.items) == len(b.items):
        return RTuple(merge(c, x, y) for x, y in zip(a.items, b.items))
    if isinstance(a, RSet) and isinstance(b, RSet):
        ent = {}
        for k in list(a.entries) + [k for k in b.entries if k not in a.entries]:
            ga, va = a.entries.get(k, (False, None))
            gb, vb = b.entries.get(k, (False, None))
            ent[k] = (b_ite(c, ga, gb), va if va is not None else vb)
        return RSet(ent, a.ordered)
    if isinstance(a, RMap) and isinstance(b, RMap):
        ent = {}
        for k in list(a.entries) + [k for k in b.entries if k not in a.entries]:
            ea = a.entries.get(k)
            eb = b.entries.get(k)
            if ea is None:
                ent[k] = (b_and(b_not(c), eb[0]), eb[1], eb[2])
            elif eb is None:
                ent[k] = (b_and(c, ea[0]), ea[1], ea[2])
            else:
                ent[k] = (b_ite(c, ea[0], eb[0]), ea[1], merge(c, ea[2], eb[2]))
        return RMap(ent, a.ordered)
    if isinstance(a, RVec) and isinstance(b, RVec):
        if len(a.items) == len(b.items):
            try:
                return RVec((b_ite(c, ga, gb), merge(c, va, vb)) for (ga, va), (gb, vb) in zip(a.items, b.items))
            except Unsupported:
                pass
        # common prefix by identity, then guarded suffixes
        i = 0
        while i < len(a.items) and i < len(b.items) and a.items[i][0] is b.items[i][0] and a.items[i][1] is b.items[i][1]:
            i += 1
        items = list(a.items[:i])
        items += [(b_and(c, g), v) for g, v in a.items[i:]]
        items += [(b_and(b_not(c), g), v) for g, v in b.items[i:]]
        return RVec(items)
    if isinstance(a, Opaque) and isinstance(b, Opaque) and a.tag == b.tag and a.data.keys() == b.data.keys():
        try:
            return Opaque(a.tag, **{k: merge(c, a.data[k], b.data[k]) for k in a.data})
        except Unsupported:
            pass
    if isinstance(a, Ref) and isinstance(b, Ref) and a.addr == b.addr and a.path == b.path:
        return a
    # union
    alts = []
    for g, v in (a.alts if isinstance(a, Union) else ((True, a),)):
        alts.append((b_and(c, g), v))
    for g, v in (b.alts if isinstance(b, Union) else ((True, b),)):
        alts.append((b_and(b_not(c), g), v))
    return mk_union(alts)


def mk_union(alts):
    """Build a Union, merging alternatives of identical shape."""
    out = []
    for g, v in alts:
        if g is False:
            continue
        placed = False
        for i, (g2, v2) in enumerate(out):
            if shape_sig(v) == shape_sig(v2) and not isinstance(v, (RVec, RSet, RMap, Closure)):
                try:
                    out[i] = (b_or(g, g2), merge(g, v, v2))
                    placed = True
                    break
                except Unsupported:
                    pass
        if not placed:
            out.append((g, v))
    if len(out) == 1:
        return out[0][1]
    if not out:
        raise Unsupported('empty union')
    return Union(out)
