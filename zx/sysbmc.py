"""SYS: bounded model checking of the composed system (main task + target actors + build futures +
environment) built from the step summaries the symbolic executor derived from the source.

State is a dict name -> z3 term; each step merges the successors of all enabled alternatives by `ite`
on a symbolic scheduler choice.  Relay folding (DESIGN 3.2): a message an actor puts on the output
channel is handled by the main-task summary in the same step.
"""
import time

import z3

from .actors import ActorModel, decode_output, proto_stubs, tname
from .mainmodel import MainModel
from .prog import Unsupported
from .summ import StraightCoroutine
from .tmpl import TConst, TOpaque, TUnion, TStruct, TEnum, TTuple, TMap, TVec
from .values import Opaque, REnum, RStruct, Union, b_and, b_ite, b_not, b_or, ok, simp, some, zbool
from .world import ProtoWorld

T = z3.BoolVal(True)
F = z3.BoolVal(False)


def zb(x):
    return z3.BoolVal(x) if isinstance(x, bool) else x


def free_consts(t, acc, seen):
    if t.get_id() in seen:
        return
    seen.add(t.get_id())
    if z3.is_const(t) and t.decl().kind() == z3.Z3_OP_UNINTERPRETED:
        acc[t.decl().name()] = t
        return
    for c in t.children():
        free_consts(c, acc, seen)


class Compiled:
    """A list of PathSums compiled for substitution."""

    def __init__(self, paths):
        self.paths = paths
        acc, seen = {}, set()
        for p in paths:
            for t in self._terms(p):
                free_consts(t, acc, seen)
        self.consts = acc

    @staticmethod
    def _terms(p):
        out = []
        if not isinstance(p.cond, bool):
            out.append(p.cond)
        if p.post:
            for v in p.post.values():
                if z3.is_expr(v):
                    out.append(v)
        for kind, data in p.effects:
            f = effect_flag(kind, data)
            if z3.is_expr(f):
                out.append(f)
        return out

    def apply(self, mapping):
        """mapping: const name -> term. Returns list of (cond, path, post, flags)."""
        subs = [(c, mapping[n]) for n, c in self.consts.items() if n in mapping]
        missing = [n for n in self.consts if n not in mapping]
        if missing:
            raise Unsupported('unbound symbols in summary: %s' % missing[:5])

        def sub(t):
            if isinstance(t, bool):
                return z3.BoolVal(t)
            if not z3.is_expr(t):
                return t
            return z3.substitute(t, *subs) if subs else t
        res = []
        for p in self.paths:
            cond = sub(p.cond)
            post = {k: sub(v) for k, v in p.post.items()} if p.post else None
            flags = [sub(zb(effect_flag(k, d))) if effect_flag(k, d) is not None else None for k, d in p.effects]
            res.append((cond, p, post, flags))
        return res


def effect_flag(kind, data):
    """The only symbolic leaf an effect may carry: the `actual` flag of an Ok message."""
    if kind == 'send':
        m = data['msg']
        if isinstance(m, REnum) and m.ty == 'TargetActorOutputMessage' and m.variant == 'MessageActor':
            inner = m.payload['msg']
            if inner.variant == 'Ok':
                return inner.payload['actual']
        if isinstance(m, REnum) and m.ty == 'ActorInputMessage' and m.variant == 'Ok':
            return m.payload['actual']
    return None


class Q:
    """FIFO of (code, flag) with static capacity."""

    def __init__(self, name, cap, cw):
        self.name, self.cap, self.cw = name, cap, cw
        self.lw = max(1, cap.bit_length())

    def init(self, S):
        S[self.name + '.len'] = z3.BitVecVal(0, self.lw)
        for j in range(self.cap):
            S['%s.c%d' % (self.name, j)] = z3.BitVecVal(0, self.cw)
            S['%s.f%d' % (self.name, j)] = F

    def nonempty(self, S):
        return S[self.name + '.len'] != 0

    def head(self, S):
        return S[self.name + '.c0'], S[self.name + '.f0']

    def pop(self, S):
        S2 = dict(S)
        for j in range(self.cap):
            if j + 1 < self.cap:
                S2['%s.c%d' % (self.name, j)] = S['%s.c%d' % (self.name, j + 1)]
                S2['%s.f%d' % (self.name, j)] = S['%s.f%d' % (self.name, j + 1)]
            else:
                S2['%s.c%d' % (self.name, j)] = z3.BitVecVal(0, self.cw)
                S2['%s.f%d' % (self.name, j)] = F
        S2[self.name + '.len'] = S[self.name + '.len'] - 1
        return S2

    def push(self, S, code, flag):
        """Returns (S', overflow)."""
        S2 = dict(S)
        ln = S[self.name + '.len']
        for j in range(self.cap):
            here = ln == j
            S2['%s.c%d' % (self.name, j)] = z3.If(here, z3.BitVecVal(code, self.cw), S['%s.c%d' % (self.name, j)])
            S2['%s.f%d' % (self.name, j)] = z3.If(here, zb(flag), S['%s.f%d' % (self.name, j)])
        full = ln == self.cap
        S2[self.name + '.len'] = z3.If(full, ln, ln + 1)
        S2['overflow'] = z3.Or(S['overflow'], full)
        return S2


def ite_state(c, A, B):
    """State equal to A when c else B (only differing keys get an ite)."""
    if A is B:
        return A
    out = dict(B)
    for k, va in A.items():
        vb = B.get(k)
        if vb is None:
            out[k] = va
        elif va is not vb and not va.eq(vb):
            out[k] = z3.If(c, va, vb)
    return out


def find_fuse(tmpl, prefix):
    """Locate Fuse objects holding a user future in a state template: [(tag slot name, active index, TOpaque future)]."""
    res = []

    def rec(t, p):
        if isinstance(t, TOpaque):
            if t.tag == 'Fuse' and isinstance(t.data.get('inner'), TUnion):
                u = t.data['inner']
                for i, a in enumerate(u.alts):
                    if isinstance(a, TOpaque) and a.tag == 'Future':
                        res.append(('%s.inner#tag' % p, i, len(u.alts)))
            for k, x in t.data.items():
                rec(x, '%s.%s' % (p, k))
        elif isinstance(t, TStruct):
            for k, x in t.fields.items():
                rec(x, '%s.%s' % (p, k))
        elif isinstance(t, TEnum):
            for k, x in t.payload.items():
                rec(x, '%s.%s' % (p, k))
        elif isinstance(t, TTuple):
            for i, x in enumerate(t.items):
                rec(x, '%s.%d' % (p, i))
        elif isinstance(t, TUnion):
            for i, a in enumerate(t.alts):
                rec(a, '%s#%d' % (p, i))
    rec(tmpl, prefix)
    return res


class BuildFuture:
    """Phase tree of the build future of a build actor (from the Future value found in its state)."""

    def __init__(self, prog, am):
        self.am = am
        env = am.co.inst.value
        futs = []

        def find(v):
            if isinstance(v, Opaque):
                if v.tag == 'Fuse':
                    inner = v.get('inner')
                    alts = inner.alts if isinstance(inner, Union) else [(True, inner)]
                    for g, x in alts:
                        if isinstance(x, Opaque) and x.tag == 'Future':
                            futs.append(x)
                for x in v.data.values():
                    find(x)
            elif isinstance(v, RStruct):
                for x in v.fields.values():
                    find(x)
            elif isinstance(v, Union):
                for g, x in v.alts:
                    find(x)
        find(env)
        if len(futs) != 1:
            raise Unsupported('expected exactly one fused future in the build actor state, found %d' % len(futs))
        fut = futs[0]
        self.world = ProtoWorld()

        def start(I):
            return I.await_value(fut, {'_id': -2, 'line': 0, '_file': 'buildfuture'})

        def evs(sc, node):
            out = []
            info = node.info
            if 'arms' in info:
                for ai, arm in enumerate(info['arms']):
                    if arm['kind'] == 'recv':
                        out.append(('cancel', ai, some(RStruct('BuildCancellationMessage', {})), None))
                    elif arm['kind'] == 'status':
                        out.append(('exit', ai, ok(Opaque('ExitStatus', success=z3.Bool('exit_success'))), None))
                    else:
                        raise Unsupported('build future select arm %s' % arm['kind'])
            else:
                raise Unsupported('build future suspends outside a select (%s)' % info.get('kind2'))
            return out
        self.sc = StraightCoroutine(prog, self.world, start, stubs=proto_stubs(), name='bf%d' % am.i, event_values=evs).build()
        self.nodes = self.sc.nodes

    @staticmethod
    def result_code(v):
        """Map a build-future return value to the ev_build_result code used by ActorModel."""
        if v.variant == 'Err':
            return 3
        r = v.payload[0]
        return {'Skipped': 0, 'Completed': 1, 'Cancelled': 2}[r.variant]


class System:
    def __init__(self, prog, kinds, watch, qcap=6, roots_dup=False, log=None):
        self.prog = prog
        self.kinds = kinds
        self.n = len(kinds)
        self.watch = watch
        self.qcap = qcap
        self.log = log or (lambda *a: None)
        t0 = time.time()
        self.dep = [[z3.Bool('dep_%d_%d' % (i, j)) for j in range(i)] for i in range(self.n)]
        self.root = [z3.Bool('root_%d' % i) for i in range(self.n)]
        self.actors = [ActorModel(prog, kinds[i], i, self.n, watch, dep_syms=self.dep[i]).build() for i in range(self.n)]
        self.main = MainModel(prog, self.n, watch, root_syms=self.root, roots_dup=roots_dup, kinds=kinds, dep_syms=self.dep).build()
        self.bfs = {i: BuildFuture(prog, self.actors[i]) for i in range(self.n) if kinds[i] == 'build'}
        self.build_time = time.time() - t0
        self.q = [Q('q%d' % i, qcap, self.actors[i].sel_w) for i in range(self.n)]
        self._compile()

    # ------------------------------------------------------------------ compilation
    def _compile(self):
        self.c_actor = []
        for am in self.actors:
            d = {}
            for role, ai in am.arm_roles.items():
                ps = am.co.steps.get(ai, [])
                for p in ps:
                    if p.outcome == 'suspend':
                        raise Unsupported('actor %s suspends outside its select at node %s' % (am.me, p.site))
                d[role] = Compiled(ps)
            d['init'] = Compiled(am.co.init)
            self.c_actor.append(d)
        mm = self.main
        self.c_main = {role: Compiled(mm.co.steps[ai]) for role, ai in mm.arm_roles.items()}
        self.c_main_init = Compiled(mm.co.init)
        # main paths per output message label
        self.main_out = {}
        out_ps = mm.co.steps[mm.arm_roles['out']]
        for idx, (label, mk) in enumerate(mm.outs):
            sel = []
            for p in out_ps:
                c = p.cond if not isinstance(p.cond, bool) else z3.BoolVal(p.cond)
                c2 = z3.simplify(z3.substitute(c, (mm.ev_sel, z3.BitVecVal(idx, mm.sel_w))))
                if z3.is_false(c2):
                    continue
                sel.append((c2, p))
            self.main_out[label] = sel
        self.c_bf = {}
        for i, bf in self.bfs.items():
            d = {'first': Compiled(bf.sc.first)}
            for ni, node in enumerate(bf.nodes):
                for key, sums in node.edges.items():
                    d[(ni, key)] = Compiled(sums)
            self.c_bf[i] = d
        # fuse slots
        self.fuse = {}
        for i in self.bfs:
            fs = find_fuse(self.actors[i].co.tmpl, 'a%d' % i)
            if len(fs) != 1:
                raise Unsupported('could not locate the build fuse in actor %d state' % i)
            self.fuse[i] = fs[0]
        self.msg_code = [{label: idx for idx, (label, mk) in enumerate(am.msgs)} for am in self.actors]

    # ------------------------------------------------------------------ initial state
    def initial(self):
        S = {}
        S['overflow'] = F
        S['panic'] = F
        S['badmsg'] = F
        S['sig.sent'] = F
        S['sig.pending'] = F
        for i, am in enumerate(self.actors):
            S['launched.%d' % i] = F
            S['alive.%d' % i] = F
            S['term.%d' % i] = F
            S['inval.%d' % i] = F
            S['cancel.%d' % i] = F
            S['bf.%d' % i] = z3.BitVecVal(0, 3)
            S['proc.%d' % i] = F
            S['hang.%d' % i] = z3.Bool('hang_%d' % i)     # environment: this target's script never exits by itself
            for n, c in am.co.inst.slots:
                S[n] = F if z3.is_bool(c) else z3.BitVecVal(0, c.size())
            self.q[i].init(S)
        for n, c in self.main.co.inst.slots:
            S[n] = F if z3.is_bool(c) else z3.BitVecVal(0, c.size())
        S['main.phase'] = z3.BitVecVal(0, 3)
        S['main.err'] = F
        if hasattr(self, '_base_state'):
            self._base_state(S)
        obs = Obs(self.n)
        # main start: engine::run up to the first suspension
        res = self.c_main_init.apply({n: c for n, c in self._sym_consts().items()})
        S0 = S
        out = None
        for cond, p, post, flags in res:
            if p.outcome == 'loop':
                Sp = dict(S0)
                Sp.update({k: zb(v) for k, v in post.items()})
                Sp = self._main_effects(Sp, p.effects, flags, obs, cond)
            elif p.outcome == 'return':
                Sp = dict(S0)
                Sp['main.phase'] = z3.BitVecVal(2, 3)
                Sp['main.err'] = z3.BoolVal(p.value.variant == 'Err')
            elif p.outcome == 'suspend':
                Sp = dict(S0)
                Sp['main.phase'] = z3.BitVecVal(1, 3)
            else:
                Sp = dict(S0)
                Sp['panic'] = T
            out = Sp if out is None else ite_state(cond, Sp, out)
        return out, obs

    def _sym_consts(self):
        d = {}
        for i in range(self.n):
            for j in range(i):
                d['dep_%d_%d' % (i, j)] = self.dep[i][j]
            d['root_%d' % i] = self.root[i]
        for c in getattr(self.main, 'dup_syms', []):
            d[c.decl().name()] = c
        # assumption (stated): file watchers can be created when an actor is launched
        d['watcher_fails#0'] = F
        return d

    # ------------------------------------------------------------------ effects
    def _main_effects(self, S, effects, flags, obs, g):
        """Apply the effects of a main-task path (launch / send to inbox)."""
        for (kind, data), fl in zip(effects, flags):
            if kind == 'launch':
                i = int(data['target'][1:])
                S = self._launch(S, i)
                obs.add('launch', i, g)
            elif kind == 'send':
                chan = data['chan']
                if chan.startswith('inbox:'):
                    i = int(chan.split(':')[1][1:])
                    m = data['msg']
                    label = self._in_label(m)
                    code = self.msg_code[i].get(label)
                    if code is None:
                        S = dict(S)
                        S['badmsg'] = T
                    else:
                        S = self.q[i].push(S, code, fl if fl is not None else F)
                        obs.add('deliver', (i, label), g)
                elif chan.startswith('term:'):
                    i = int(chan.split(':')[1][1:])
                    S = dict(S)
                    S['term.%d' % i] = T
                else:
                    raise Unsupported('main task sends on %s' % chan)
            elif kind in ('new_channel', 'task'):
                pass
            else:
                raise Unsupported('main task effect %s' % kind)
        return S

    @staticmethod
    def _in_label(m):
        kind = m.payload['kind'].variant
        if m.variant in ('Requested', 'Unrequested'):
            r = m.payload['requester']
            who = 'ROOT' if r.variant == 'Root' else r.payload[0].fields['target_name']
        else:
            who = m.payload['target_id'].fields['target_name']
        return (m.variant, kind, who)

    def _launch(self, S, i, obs=None, g=None):
        S = dict(S)
        S['launched.%d' % i] = T
        S['alive.%d' % i] = T
        res = self.c_actor[i]['init'].apply(self._sym_consts())
        out = None
        for cond, p, post, flags in res:
            Sp = dict(S)
            if p.outcome == 'loop':
                Sp.update({k: zb(v) for k, v in post.items()})
            elif p.outcome == 'return':
                Sp['alive.%d' % i] = F
            else:
                Sp['panic'] = T
            out = Sp if out is None else ite_state(cond, Sp, out)
        return out

    def _relay(self, S, label, flag, obs, g):
        """Main task handles one output message (only while it is in its loop)."""
        in_loop = S['main.phase'] == 0
        sel = self.main_out.get(label)
        if sel is None:
            S2 = dict(S)
            S2['badmsg'] = T
            return S2
        mapping = {n: S[n] for n, c in self.main.co.inst.slots}
        mapping['mev_actual'] = zb(flag) if flag is not None else F
        mapping.update(self._sym_consts())
        out = S
        for c2, p in sel:
            comp = Compiled([p])
            comp.consts.pop('mev_sel', None)
            (cond, _, post, flags), = Compiled.apply(comp, dict(mapping, mev_sel=z3.BitVecVal(0, self.main.sel_w)))
            cond = z3.substitute(c2, *[(c, mapping[n]) for n, c in comp.consts.items() if n in mapping]) if comp.consts else c2
            Sp = dict(S)
            gg = z3.And(g, in_loop, cond)
            if p.outcome == 'loop':
                Sp.update({k: zb(v) for k, v in post.items()})
                Sp = self._main_effects(Sp, p.effects, flags, obs, gg)
            elif p.outcome == 'return':
                Sp['main.phase'] = z3.BitVecVal(2, 3)
                Sp['main.err'] = z3.BoolVal(p.value.variant == 'Err')
                if p.value.variant == 'Err':
                    obs.add('main_err', label, gg)
            elif p.outcome == 'suspend':
                Sp['main.phase'] = z3.BitVecVal(1, 3)
            else:
                Sp['panic'] = T
                obs.add('main_panic', str(p.panic), gg)
            out = ite_state(z3.And(in_loop, cond), Sp, out)
        return out

    def _actor_effects(self, S, i, effects, flags, obs, g):
        for (kind, data), fl in zip(effects, flags):
            if kind == 'send':
                if data['chan'] == 'OUT':
                    dec = decode_output(data['msg'])
                    if dec[0] == 'err':
                        label = ('err', dec[1])
                        obs.add('emit_err', dec[1], g)
                    else:
                        label = ('msg', dec[1], dec[2])
                        obs.add('emit', (i, dec[1], dec[2]), g, fl)
                    S = self._relay(S, label, fl, obs, g)
                else:
                    # cancellation channel of the build future (the only other channel an actor may send on)
                    if data['chan'] != self._cancel_chan(i):
                        raise Unsupported('send on channel %s, which is neither the engine channel nor the build cancellation channel' % data['chan'])
                    S = dict(S)
                    S['cancel.%d' % i] = T
                    obs.add('cancel', i, g)
            elif kind == 'new_channel':
                S = dict(S)
                S['cancel.%d' % i] = F
                obs.add('decide', i, g)      # a build actor creates its cancellation channel when it decides to build
            elif kind == 'spawn':
                S = dict(S)
                S['proc.%d' % i] = T
                obs.add('spawn', i, g)
            elif kind == 'spawn_failed':
                obs.add('spawn_failed', i, g)
            elif kind == 'kill':
                obs.add('kill', i, g)
            elif kind == 'reap':
                S = dict(S)
                S['proc.%d' % i] = F
                obs.add('reap', i, g)
            elif kind in ('fs', 'launched', 'task', 'watcher_new'):
                if kind == 'fs':
                    obs.add('fs_' + data['op'], i, g)
            else:
                raise Unsupported('actor effect %s' % kind)
        return S

    def _apply_actor_paths(self, S, i, res, obs, g):
        out = S
        for cond, p, post, flags in res:
            Sp = dict(S)
            gg = z3.And(g, cond)
            if p.outcome == 'loop':
                Sp.update({k: zb(v) for k, v in post.items()})
            elif p.outcome == 'return':
                Sp['alive.%d' % i] = F
                obs.add('exit', i, gg)
            else:
                Sp['panic'] = T
                obs.add('panic', (i, str(p.panic)), gg)
            Sp = self._actor_effects(Sp, i, p.effects, flags, obs, gg)
            out = ite_state(cond, Sp, out)
        return out

    def _actor_mapping(self, S, i, k, extra=None):
        am = self.actors[i]
        m = {n: S[n] for n, c in am.co.inst.slots}
        m.update(self._sym_consts())
        m['full:%s#0' % self._cancel_chan(i)] = S['cancel.%d' % i]
        if extra:
            m.update(extra)
        return m

    def _cancel_chan(self, i):
        ch = getattr(self, '_cc', {}).get(i)
        if ch is None:
            self._cc = getattr(self, '_cc', {})
            am = self.actors[i]
            chans = [c for c in am.world.chan_caps if c not in am.roles]
            self._cc[i] = ch = chans[0] if chans else 'none'
        return ch

    def fresh_oracles(self, comp, k, who, mapping):
        """Bind every unbound symbol of a compiled summary to a fresh per-step oracle constant."""
        for n, c in comp.consts.items():
            if n not in mapping:
                nm = 'o%s.%s.%s' % (k, who, n)
                v = z3.Bool(nm) if z3.is_bool(c) else z3.BitVec(nm, c.size())
                mapping[n] = v
                self.oracles.setdefault(k, {})[(who, n)] = v
        return mapping

    # ------------------------------------------------------------------ one step
    def alternatives(self, S, k):
        """List of (name, enabled, successor, obs) for step k."""
        alts = []
        n = self.n
        for i in range(n):
            am = self.actors[i]
            live = z3.And(S['launched.%d' % i], S['alive.%d' % i])
            ca = self.c_actor[i]
            # inbox
            code, flag = self.q[i].head(S)
            obs = Obs(n)
            S1 = self.q[i].pop(S)
            m = self._actor_mapping(S1, i, k, {'ev_sel': code, 'ev_actual': flag})
            comp = ca['inbox']
            m = self.fresh_oracles(comp, k, 'a%d' % i, m)
            S2 = self._apply_actor_paths(S1, i, comp.apply(m), obs, T)
            obs.add('handle', i, T)
            for label, idx in self.msg_code[i].items():
                obs.add('recv', (i, label), code == idx)
            alts.append((('inbox', i), z3.And(live, self.q[i].nonempty(S)), S2, obs))
            # termination
            if 'term' in ca:
                obs = Obs(n)
                S1 = dict(S)
                S1['term.%d' % i] = F
                comp = ca['term']
                m = self.fresh_oracles(comp, k, 'a%d' % i, self._actor_mapping(S1, i, k))
                S2 = self._apply_actor_paths(S1, i, comp.apply(m), obs, T)
                alts.append((('term', i), z3.And(live, S['term.%d' % i]), S2, obs))
            if 'inval' in ca and self.watch:
                obs = Obs(n)
                S1 = dict(S)
                S1['inval.%d' % i] = F
                comp = ca['inval']
                m = self.fresh_oracles(comp, k, 'a%d' % i, self._actor_mapping(S1, i, k))
                S2 = self._apply_actor_paths(S1, i, comp.apply(m), obs, T)
                obs.add('handle_inval', i, T)
                alts.append((('inval', i), z3.And(live, S['inval.%d' % i]), S2, obs))
                # environment: file-change notification (try_send: dropped when the slot is full)
                obs = Obs(n)
                S1 = dict(S)
                S1['inval.%d' % i] = T
                obs.add('notify', i, T)
                alts.append((('notify', i), S['launched.%d' % i], S1, obs))
            if i in self.bfs:
                slot, active_idx, nalts = self.fuse[i]
                active = S[slot] == active_idx
                # first poll of the build future
                obs = Obs(n)
                S2 = self._bf_step(S, i, k, 'first', obs)
                alts.append((('bf_start', i), z3.And(live, active, S['bf.%d' % i] == 0), S2, obs))
                for ni, node in enumerate(self.bfs[i].nodes):
                    for key in node.edges:
                        obs = Obs(n)
                        S1 = dict(S)
                        if key == 'cancel':
                            en = z3.And(live, active, S['bf.%d' % i] == ni + 1, S['cancel.%d' % i])
                            S1['cancel.%d' % i] = F
                        else:
                            en = z3.And(live, active, S['bf.%d' % i] == ni + 1, S['proc.%d' % i], z3.Not(S['hang.%d' % i]))
                            S1['proc.%d' % i] = F
                            obs.add('proc_exit', i, T)
                        S2 = self._bf_step(S1, i, k, (ni, key), obs)
                        alts.append((('bf_' + key, i), en, S2, obs))
        # environment: termination signal
        obs = Obs(n)
        S1 = dict(S)
        S1['sig.sent'] = T
        S1['sig.pending'] = T
        obs.add('signal', 0, T)
        alts.append((('signal',), z3.Not(S['sig.sent']), S1, obs))
        # main handles the signal
        obs = Obs(n)
        S1 = dict(S)
        S1['sig.pending'] = F
        comp = self.c_main['signal']
        mapping = {nm: S[nm] for nm, c in self.main.co.inst.slots}
        mapping.update(self._sym_consts())
        outS = S1
        for cond, p, post, flags in comp.apply(mapping):
            Sp = dict(S1)
            if p.outcome == 'loop':
                Sp.update({kk: zb(v) for kk, v in post.items()})
                Sp = self._main_effects(Sp, p.effects, flags, obs, cond)
            elif p.outcome == 'return':
                Sp['main.phase'] = z3.BitVecVal(2, 3)
                Sp['main.err'] = z3.BoolVal(p.value.variant == 'Err')
            elif p.outcome == 'suspend':
                Sp['main.phase'] = z3.BitVecVal(1, 3)
            else:
                Sp['panic'] = T
            outS = ite_state(cond, Sp, outS)
        # phase 1 (waiting for the termination event after the loop): returns Ok
        Sw = dict(S1)
        Sw['main.phase'] = z3.BitVecVal(2, 3)
        Sw['main.err'] = F
        outS = ite_state(S['main.phase'] == 1, Sw, outS)
        alts.append((('main_signal',), z3.And(S['sig.pending'], z3.ULE(S['main.phase'], 1)), outS, obs))
        # main: terminate() = send termination to every launched actor, then join them
        obs = Obs(n)
        S1 = dict(S)
        for i in range(n):
            S1['term.%d' % i] = z3.Or(S['term.%d' % i], S['launched.%d' % i])
        S1['main.phase'] = z3.BitVecVal(3, 3)
        obs.add('terminate', 0, T)
        alts.append((('main_terminate',), S['main.phase'] == 2, S1, obs))
        obs = Obs(n)
        S1 = dict(S)
        S1['main.phase'] = z3.BitVecVal(4, 3)
        alldead = z3.And(*[z3.Not(z3.And(S['launched.%d' % i], S['alive.%d' % i])) for i in range(n)])
        alts.append((('main_exit',), z3.And(S['main.phase'] == 3, alldead), S1, obs))
        return alts

    def _bf_step(self, S, i, k, key, obs):
        comp = self.c_bf[i][key]
        mapping = dict(self._sym_consts())
        am = self.actors[i]
        mapping.update({n: S[n] for n, c in am.co.inst.slots})
        mapping = self.fresh_oracles(comp, k, 'bf%d' % i, mapping)
        out = S
        for cond, p, post, flags in comp.apply(mapping):
            Sp = dict(S)
            Sp = self._actor_effects(Sp, i, p.effects, flags, obs, cond)
            if p.outcome == 'suspend':
                ni = self.bfs[i].nodes.index(p.next)
                Sp['bf.%d' % i] = z3.BitVecVal(ni + 1, 3)
            elif p.outcome == 'return':
                Sp['bf.%d' % i] = z3.BitVecVal(0, 3)
                code = BuildFuture.result_code(p.value)
                obs.add('build_result', (i, code), cond)
                compa = self.c_actor[i]['build_done']
                m = self._actor_mapping(Sp, i, k, {'ev_build_result': z3.BitVecVal(code, 2)})
                m = self.fresh_oracles(compa, k, 'a%d' % i, m)
                Sp = self._apply_actor_paths(Sp, i, compa.apply(m), obs, cond)
            else:
                Sp['panic'] = T
            out = ite_state(cond, Sp, out)
        return out

    # ------------------------------------------------------------------ unrolling
    def step_template(self, monitor=None):
        """Build the one-step relation once, over placeholder constants cur.<name>, ghost.<name>, ch."""
        if getattr(self, '_tmpl', None) is not None and self._tmpl['monitor'] is monitor:
            return self._tmpl
        S0, obs0 = self.initial()
        self.oracles = {}
        cur = {}
        for n, v in S0.items():
            v = zb(v)
            cur[n] = z3.Bool('cur.' + n) if z3.is_bool(v) else z3.BitVec('cur.' + n, v.size())
        alts = self.alternatives(cur, 'K')
        names = [a[0] for a in alts]
        cw = max(1, len(alts).bit_length())
        ch = z3.BitVec('ch', cw)
        succ = cur
        mobs = Obs(self.n)
        for ai, (name, en, S2, obs) in enumerate(alts):
            c = ch == ai
            succ = ite_state(c, S2, succ)
            mobs.merge(obs, c)
        enabled = [a[1] for a in alts]
        # forced progress: stuttering only when no internal alternative is enabled (environment events
        # 'signal' and 'notify' stay optional)
        internal = [en for nm, en in zip(names, enabled) if nm[0] not in ('signal', 'notify')]
        constraint = z3.Or([z3.And(ch == ai, en) for ai, en in enumerate(enabled)] + [z3.And(ch == len(alts), z3.Not(z3.Or(internal)))])
        g0 = monitor.init(self, S0, obs0) if monitor else {}
        gcur = {g: (z3.Bool('ghost.' + g) if z3.is_bool(zb(v)) else z3.BitVec('ghost.' + g, v.size())) for g, v in g0.items()}
        gnext = monitor.step(self, cur, mobs, succ, gcur, 'K') if monitor else {}
        oracle_consts = dict(self.oracles.get('K', {}))
        self._tmpl = {'monitor': monitor, 'S0': S0, 'obs0': obs0, 'cur': cur, 'succ': succ, 'ch': ch, 'names': names,
                      'enabled': enabled, 'constraint': constraint, 'obs': mobs, 'g0': g0, 'gcur': gcur, 'gnext': gnext,
                      'oracles': oracle_consts}
        return self._tmpl

    def unroll(self, K, monitor=None):
        """K-step unrolling by instantiating the step template with fresh constants per step."""
        t = self.step_template(monitor)
        u = Unrolling(self, K)
        u.alt_names = t['names']
        S = dict(t['S0'])
        S = self._freshen(S, 0, u)
        ghost = {g: self._fresh_one('g0.%s' % g, v, u) for g, v in t['g0'].items()}
        u.states.append(S)
        u.obs.append(t['obs0'])
        u.ghosts.append(ghost)
        u.oracles = {}
        for k in range(K):
            subs = [(t['cur'][n], zb(S[n])) for n in t['cur']]
            subs += [(t['gcur'][g], zb(ghost[g])) for g in t['gcur']]
            chk = z3.BitVec('ch_%d' % k, t['ch'].size())
            subs.append((t['ch'], chk))
            ok_ = {}
            for (who, n), c in t['oracles'].items():
                nm = 'o%d.%s.%s' % (k, who, n)
                v = z3.Bool(nm) if z3.is_bool(c) else z3.BitVec(nm, c.size())
                subs.append((c, v))
                ok_[(who, n)] = v
            u.oracles[k] = ok_
            u.choices.append(chk)

            def sub(x):
                return z3.substitute(zb(x), *subs)
            u.enabled.append([sub(e) for e in t['enabled']])
            u.constraints.append(sub(t['constraint']))
            nxt = {}
            for n in t['cur']:
                v = t['succ'][n]
                nxt[n] = self._fresh_one('s%d.%s' % (k + 1, n), sub(v), u)
            ob = Obs(self.n)
            for kind, d in t['obs'].ev.items():
                for key, (g, f) in d.items():
                    ob.ev.setdefault(kind, {})[key] = (sub(g), sub(f) if f is not None else None)
            gn = {g: self._fresh_one('g%d.%s' % (k + 1, g), sub(v), u) for g, v in t['gnext'].items()}
            S = nxt
            ghost = gn
            u.states.append(S)
            u.obs.append(ob)
            u.ghosts.append(ghost)
        # enabledness in the final state (for completeness / quiescence obligations)
        subs = [(t['cur'][n], zb(S[n])) for n in t['cur']]
        for (who, n), c in t['oracles'].items():
            nm = 'o%d.%s.%s' % (K, who, n)
            subs.append((c, z3.Bool(nm) if z3.is_bool(c) else z3.BitVec(nm, c.size())))
        u.enabled.append([z3.substitute(zb(e), *subs) for e in t['enabled']])
        return u

    def _fresh_one(self, name, v, u):
        v = zb(v)
        v = z3.simplify(v)
        if z3.is_const(v) or z3.is_bv_value(v) or z3.is_true(v) or z3.is_false(v):
            return v
        c = z3.Bool(name) if z3.is_bool(v) else z3.BitVec(name, v.size())
        u.defs.append(c == v)
        return c

    def _freshen(self, S, k, u):
        return {n: self._fresh_one('s%d.%s' % (k, n), v, u) for n, v in S.items()}


class Obs:
    """Observable events of a step: kind -> {key: (guard, flag)} (guards are mutually consistent Bools)."""

    def __init__(self, n):
        self.ev = {}

    def add(self, kind, key, g, flag=None):
        d = self.ev.setdefault(kind, {})
        g = zb(g)
        if key in d:
            g0, f0 = d[key]
            d[key] = (z3.Or(g0, g), f0 if flag is None else (z3.If(g, zb(flag), zb(f0)) if f0 is not None else zb(flag)))
        else:
            d[key] = (g, zb(flag) if flag is not None else None)

    def merge(self, other, c):
        for kind, d in other.ev.items():
            for key, (g, f) in d.items():
                self.add(kind, key, z3.And(c, g), f)

    def get(self, kind, key=None):
        d = self.ev.get(kind, {})
        if key is None:
            return d
        return d.get(key, (F, None))[0]

    def any(self, kind, pred=None):
        d = self.ev.get(kind, {})
        gs = [g for key, (g, f) in d.items() if pred is None or pred(key)]
        return z3.Or(gs) if gs else F


class Unrolling:
    def __init__(self, system, K):
        self.system = system
        self.K = K
        self.states = []
        self.obs = []
        self.choices = []
        self.enabled = []
        self.constraints = []
        self.defs = []
        self.ghosts = []
        self.alt_names = []

    def solver(self, timeout_ms=None, kind='qfbv'):
        s = z3.SolverFor('QF_BV') if kind == 'qfbv' else z3.Solver()
        if timeout_ms:
            s.set('timeout', timeout_ms)
        for c in self.defs:
            s.add(c)
        for c in self.constraints:
            s.add(c)
        return s

    def quiescent(self, k, ignore=()):
        """No alternative other than those named in `ignore` is enabled in state k (k < K)."""
        en = self.enabled[k]
        return z3.And([z3.Not(e) for nm, e in zip(self.alt_names, en) if nm[0] not in ignore])

    def decode(self, model):
        """Readable schedule from a model."""
        sched = []
        for k, ch in enumerate(self.choices):
            v = model.eval(ch, model_completion=True).as_long()
            sched.append(self.alt_names[v] if v < len(self.alt_names) else ('stutter',))
        return sched
