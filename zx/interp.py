"""ZX symbolic interpreter: executes zinoma's Rust source (syn JSON AST) path by path.

One *path* = one execution with every symbolic branch decided; `explore()` enumerates all
feasible paths (DFS over decisions, feasibility by z3) of a computation started from a given
(possibly symbolic) store.  Library calls are given by models (zx/lib.py); anything unknown
raises Unsupported (the check becomes inconclusive, never guesses).
"""
import sys

import z3

from .prog import Unsupported, FnDef
from .values import (UNIT, NONE, Closure, FnRef, Opaque, REnum, RMap, RSet, RStruct, RTuple, RVec, Ref,
                     Union, b_and, b_not, b_or, err, is_boolish, is_intish, is_sym, key_of, ok, simp, some,
                     zbool, zint, INTW)

sys.setrecursionlimit(20000)


class BreakEx(Exception):
    def __init__(self, label, value):
        self.label, self.value = label, value


class ContinueEx(Exception):
    def __init__(self, label):
        self.label = label


class ReturnEx(Exception):
    def __init__(self, value):
        self.value = value


class PanicEx(Exception):
    def __init__(self, msg, node=None):
        self.msg, self.node = msg, node
        super().__init__(msg)


class SuspendEx(Exception):
    """Execution reached a suspension point with nothing to resume it."""

    def __init__(self, site, kind, info):
        self.site, self.kind, self.info = site, kind, info
        super().__init__('suspend at %s (%s)' % (site, kind))


class DivergeEx(Exception):
    """The call depth bound was exceeded on a feasible path and the driver asked for that to be a path outcome (candidate non-termination)."""
    def __init__(self, fn, node=None):
        Exception.__init__(self, 'call depth bound exceeded in %s' % fn)
        self.fn, self.node = fn, node


class InfeasibleEx(Exception):
    pass


class DisabledEx(InfeasibleEx):
    """The event chosen by the driver cannot fire in this state (e.g. terminated Fuse)."""


class Frame:
    def __init__(self, fd, module, self_ty):
        self.fd = fd
        self.module = module
        self.self_ty = self_ty
        self.scopes = [{}]


class Path:
    """Result of one explored path."""

    def __init__(self, pc, outcome, value, store, effects, frames, suspend=None, decisions=None):
        self.pc = pc              # list of z3 Bool conjuncts
        self.outcome = outcome    # 'return' | 'suspend' | 'panic'
        self.value = value
        self.store = store
        self.effects = effects
        self.frames = frames
        self.suspend = suspend
        self.decisions = decisions

    def cond(self):
        return b_and(*self.pc)


class Interp:
    def __init__(self, prog, world, stubs=None, max_paths=20000):
        self.prog = prog
        self.world = world
        self.stubs = stubs or {}
        self.max_paths = max_paths
        self.solver = z3.Solver()
        self.solver.set('timeout', 20000)
        self.lib = None
        self.stats = {'paths': 0, 'solver_calls': 0, 'fns': set()}
        from . import lib
        self.lib = lib.Lib(self)
        self.reset_path()

    # ------------------------------------------------------------------ path state
    def reset_path(self):
        self.held = {}          # lock guards currently alive on this path: gid -> name of the shared object (None = local)
        self.guard_seq = 0
        self.store = {}
        self.next_addr = 0
        self.pc = []
        self.frames = []
        self.effects = []
        self.prefix = []
        self.trail = []
        self.pos = 0
        self.resume = None        # {'select': node_id, 'arm': i, 'value': v}
        self.skipping = None
        self.trace = []           # list of (site, arm, value) for trace-replay resumption
        self.trace_pos = 0
        self.fresh_counter = {}
        self.suppress_effects = 0
        self.local_fns = {}

    def alloc(self, v):
        a = self.next_addr
        self.next_addr += 1
        self.store[a] = v
        return a

    def fresh(self, name, sort='bool', width=None):
        n = self.fresh_counter.get(name, 0)
        self.fresh_counter[name] = n + 1
        nm = '%s#%d' % (name, n)
        if sort == 'bool':
            return z3.Bool(nm)
        return z3.BitVec(nm, width or 64)

    def effect(self, kind, **data):
        if self.suppress_effects > 0:
            self.suppress_effects -= 1
            return
        self.effects.append((kind, data))

    # ------------------------------------------------------------------ decisions
    def feasible(self, g):
        if g is True:
            return True
        if g is False:
            return False
        self.stats['solver_calls'] += 1
        r = self.solver.check(*([zbool(c) for c in self.pc] + [g]))
        if r == z3.unknown:
            raise Unsupported('solver returned unknown on a path feasibility query')
        return r == z3.sat

    def choose(self, guards):
        """Pick one of mutually exclusive guards; explores the others on later paths."""
        guards = [simp(g) if not isinstance(g, bool) else g for g in guards]
        trues = [i for i, g in enumerate(guards) if g is True]
        if trues:
            return trues[0]
        if self.pos < len(self.prefix):
            idx, rest = self.prefix[self.pos]
            self.trail.append((idx, rest))
        else:
            feas = [i for i, g in enumerate(guards) if self.feasible(g)]
            if not feas:
                raise InfeasibleEx()
            idx = feas[0]
            self.trail.append((idx, feas[1:]))
        self.pos += 1
        g = guards[idx]
        if g is not True:
            self.pc.append(g)
        return idx

    def branch(self, c):
        if isinstance(c, Union):
            c = self.lib.union_to_bool(c)
        if isinstance(c, bool):
            return c
        c = simp(c)
        if isinstance(c, bool):
            return c
        return self.choose([c, b_not(c)]) == 0

    def resolve_union(self, v):
        """Pick one alternative of a Union value (forking)."""
        while isinstance(v, Union):
            i = self.choose([g for g, _ in v.alts])
            v = v.alts[i][1]
        return v

    def explore(self, thunk, init):
        """Enumerate all feasible paths of thunk(); init() prepares store/frames for each run."""
        paths = []
        prefix = []
        while True:
            self.reset_path()
            self.prefix = prefix
            init()
            try:
                try:
                    v = thunk()
                    p = Path(list(self.pc), 'return', v, self.store, self.effects, self.frames)
                except ReturnEx as e:
                    p = Path(list(self.pc), 'return', e.value, self.store, self.effects, self.frames)
                except SuspendEx as e:
                    p = Path(list(self.pc), 'suspend', None, self.store, self.effects, self.frames, suspend=e)
                except PanicEx as e:
                    p = Path(list(self.pc), 'panic', e, self.store, self.effects, self.frames)
                except DivergeEx as e:
                    p = Path(list(self.pc), 'diverge', e, self.store, self.effects, [])
                    self.frames = []
                if p.suspend is not None:
                    p.frames = p.suspend.frames
                p.decisions = [t[0] for t in self.trail]
                paths.append(p)
                self.stats['paths'] += 1
                if len(paths) > self.max_paths:
                    raise Unsupported('path explosion (> %d paths)' % self.max_paths)
            except InfeasibleEx:
                pass
            # backtrack: drop exhausted decisions, advance the last one with alternatives left
            trail = self.trail
            while trail and not trail[-1][1]:
                trail.pop()
            if not trail:
                break
            idx, rest = trail.pop()
            prefix = trail + [(rest[0], rest[1:])]
        return paths

    def suspend(self, site, kind, info):
        """Raise a suspension, capturing the frame stack (scopes are popped while unwinding)."""
        snap = []
        for fr in self.frames:
            f2 = Frame(fr.fd, fr.module, fr.self_ty)
            f2.scopes = [dict(sc) for sc in fr.scopes]
            snap.append(f2)
        ex = SuspendEx(site, kind, info)
        ex.frames = snap
        raise ex

    # ------------------------------------------------------------------ store / places
    def load(self, ref):
        v = self.store[ref.addr]
        for p in ref.path:
            v = self._proj(v, p)
        return v

    def _proj(self, v, p):
        kind = p[0]
        if isinstance(v, Ref):
            v = self.load(v)
        if isinstance(v, Union):
            v = self.resolve_union(v)
        if kind == 'f':
            if isinstance(v, RStruct):
                if p[1] not in v.fields:
                    raise Unsupported('no field %r in %s' % (p[1], v.ty))
                return v.fields[p[1]]
            if isinstance(v, RTuple):
                return v.items[p[1]]
            if isinstance(v, Opaque) and p[1] in v.data:
                return v.data[p[1]]
            raise Unsupported('field %r of %r' % (p[1], v))
        if kind == 'p':
            if isinstance(v, REnum) and v.variant == p[1]:
                return v.payload[p[2]]
            raise Unsupported('payload projection %r of %r' % (p, v))
        if kind == 'k':
            if isinstance(v, RMap):
                return v.entries[p[1]][2]
            raise Unsupported('map projection of %r' % (v,))
        if kind == 'i':
            if isinstance(v, RVec):
                return v.values()[p[1]]
            raise Unsupported('index projection of %r' % (v,))
        raise Unsupported('projection %r' % (p,))

    def store_at(self, ref, newv):
        if not ref.path:
            old = self.store.get(ref.addr)
            if isinstance(old, Ref) and not isinstance(newv, Ref):
                # assignment through a reference variable (`*r = v` handled by caller); plain rebinding here
                pass
            self.store[ref.addr] = newv
            return
        root = self.store[ref.addr]
        self.store[ref.addr] = self._update(root, ref.path, newv)

    def _update(self, v, path, newv):
        if not path:
            return newv
        p = path[0]
        if isinstance(v, Ref):
            # write through a reference stored inside a value
            self.store_at(Ref(v.addr, v.path + tuple(path)), newv)
            return v
        if isinstance(v, Union):
            raise Unsupported('update through an unresolved union')
        kind = p[0]
        if kind == 'f':
            if isinstance(v, RStruct):
                return v.with_field(p[1], self._update(v.fields[p[1]], path[1:], newv))
            if isinstance(v, RTuple):
                items = list(v.items)
                items[p[1]] = self._update(items[p[1]], path[1:], newv)
                return RTuple(items)
            if isinstance(v, Opaque):
                return v.with_(**{p[1]: self._update(v.data[p[1]], path[1:], newv)})
        if kind == 'p' and isinstance(v, REnum) and v.variant == p[1]:
            return v.with_payload(p[2], self._update(v.payload[p[2]], path[1:], newv))
        if kind == 'k' and isinstance(v, RMap):
            g, kv, old = v.entries[p[1]]
            ent = dict(v.entries)
            ent[p[1]] = (g, kv, self._update(old, path[1:], newv))
            return RMap(ent, v.ordered)
        if kind == 'i' and isinstance(v, RVec):
            items = list(v.items)
            g, old = items[p[1]]
            items[p[1]] = (g, self._update(old, path[1:], newv))
            return RVec(items)
        raise Unsupported('update %r of %r' % (p, v))

    def deref(self, v):
        """Follow references and resolve unions until a plain value is reached."""
        while True:
            if isinstance(v, Ref):
                v = self.load(v)
            elif isinstance(v, Union):
                v = self.resolve_union(v)
            else:
                return v

    def as_ref(self, v):
        """Innermost reference of a chain of references (for writes)."""
        while isinstance(v, Ref):
            inner = self.load(v)
            if isinstance(inner, Ref):
                v = inner
            else:
                return v
        return None

    # ------------------------------------------------------------------ environment
    @property
    def frame(self):
        return self.frames[-1]

    def lookup_var(self, name):
        for sc in reversed(self.frame.scopes):
            if name in sc:
                return sc[name]
        return None

    def bind(self, name, v):
        self.frame.scopes[-1][name] = self.alloc(v)

    # ------------------------------------------------------------------ functions
    def call_fn(self, fd, args, self_arg=None, node=None):
        """Call a user function (sync or async body executed inline)."""
        q = fd.qname
        self.stats['fns'].add(q)
        for key, stub in self.stubs.items():
            if q == key or q.endswith('::' + key):
                return stub(self, fd, args, self_arg, node)
        if len(self.frames) > getattr(self, 'depth_bound', 60):
            if getattr(self, 'diverge_is_outcome', False):
                raise DivergeEx(q, node)
            raise Unsupported('recursion depth exceeded (unwinding bound 60)', node)
        fr = Frame(fd, fd.module, fd.impl_ty)
        self.frames.append(fr)
        try:
            params = fd.node['inputs']
            ai = 0
            for p in params:
                if p['self']:
                    if self_arg is None:
                        if ai < len(args):
                            self_arg = args[ai]
                            ai += 1
                        else:
                            raise Unsupported('missing self argument', node)
                    if p['ref']:
                        self.bind('self', self_arg)
                    else:
                        self.bind('self', self.deref_move(self_arg))
                else:
                    if ai >= len(args):
                        raise Unsupported('arity mismatch calling %s' % q, node)
                    a = args[ai]
                    ai += 1
                    a = self.coerce(a, p['ty'])
                    if not self.match_pat(p['pat'], a, None):
                        raise Unsupported('refutable parameter pattern', node)
            try:
                v = self.exec_block(fd.node['body'])
            except ReturnEx as e:
                v = e.value
            if self.held:
                for sc in fr.scopes:
                    self.drop_scope(sc, v)
            if fd.node['ret']:
                v = self.coerce(v, fd.node['ret'])
            return v
        finally:
            self.frames.pop()

    def deref_move(self, v):
        if isinstance(v, Ref):
            return self.load(v)
        return v

    def call_value(self, f, args, node=None):
        """Call a closure / function reference."""
        if isinstance(f, Ref):
            f = self.deref(f)
        if isinstance(f, Closure):
            fr = Frame(self.frame.fd if self.frames else None, f.module, f.self_ty)
            fr.scopes = list(f.scopes) + [{}]
            self.frames.append(fr)
            try:
                pats = f.node['inputs']
                if len(pats) != len(args):
                    raise Unsupported('closure arity', f.node)
                for p, a in zip(pats, args):
                    if not self.match_pat(p, a, None):
                        raise Unsupported('refutable closure parameter', f.node)
                body = f.node['body']
                if f.is_async:
                    # closure returning a future (async move block as body handled by Async node)
                    pass
                try:
                    return self.eval(body)
                except ReturnEx as e:
                    return e.value
            finally:
                self.frames.pop()
        if isinstance(f, FnRef):
            if f.fd is not None:
                return self.call_fn(f.fd, list(args), node=node)
            return self.lib.call_path(f.name, list(args), node)
        raise Unsupported('call of non-callable %r' % (f,), node)

    def coerce(self, v, ty):
        return self.lib.coerce(v, ty)

    # ------------------------------------------------------------------ blocks / statements
    def exec_block(self, blk):
        self.frame.scopes.append({})
        dropped = False
        try:
            v = UNIT
            stmts = blk['stmts']
            for i, st in enumerate(stmts):
                if self.skipping is not None and not self._contains_skip_target(st):
                    continue
                v = self.exec_stmt(st)
                if st['k'] == 'ExprStmt' and st['semi']:
                    v = UNIT
                elif st['k'] != 'ExprStmt':
                    v = UNIT
            if self.held:
                self.drop_scope(self.frame.scopes[-1], v)
                dropped = True
            return v
        except (ReturnEx, BreakEx, ContinueEx) as ex:
            if self.held and not dropped:
                self.drop_scope(self.frame.scopes[-1], getattr(ex, 'value', None))
            raise
        finally:
            self.frame.scopes.pop()

    def drop_scope(self, scope, moved_out=None):
        """Lock guards owned by variables of a scope that ends are released (unless the guard is the value moved out)."""
        keep = moved_out.get('gid') if isinstance(moved_out, Opaque) and moved_out.tag == 'Guard' else None
        for n, a in scope.items():
            v = self.store.get(a)
            if isinstance(v, Opaque) and v.tag == 'Guard' and v.get('gid') in self.held and v.get('gid') != keep:
                self.effect('unlock', name=self.held.pop(v.get('gid')), gid=v.get('gid'))
            elif isinstance(v, RStruct) and v is not moved_out:
                # a value of a type with a user Drop impl goes out of scope (only looked at while some shared object is held)
                fd = self.lib.find_user_method(v.ty, 'drop', trait='Drop')
                if fd is not None:
                    self.call_fn(fd, [Ref(a, ())])

    def _contains_skip_target(self, node):
        return self.skipping in self._desc_ids(node)

    def _desc_ids(self, node):
        ids = node.get('_desc')
        if ids is None:
            ids = set()

            def rec(x):
                if isinstance(x, dict):
                    if '_id' in x:
                        ids.add(x['_id'])
                    for k, v in x.items():
                        if k != '_desc':
                            rec(v)
                elif isinstance(x, list):
                    for v in x:
                        rec(v)
            rec(node)
            node['_desc'] = ids
        return ids

    def exec_stmt(self, st):
        k = st['k']
        if k == 'ExprStmt':
            return self.eval(st['expr'])
        if k == 'Let':
            if st['init'] is None:
                # declared, assigned later
                self._bind_pat_uninit(st['pat'])
                return UNIT
            place = None
            v = self.eval(st['init'])
            pat = st['pat']
            if pat['k'] == 'PType':
                v = self.coerce(v, pat['ty'])
            if not self.match_pat(pat, v, None):
                if st['diverge'] is not None:
                    self.eval(st['diverge'])
                    raise Unsupported('let-else diverge block returned', st)
                raise PanicEx('refutable let pattern did not match', st)
            return UNIT
        if k == 'ItemStmt':
            it = st['item']
            if it['k'] == 'Fn':
                # local fn item: register in the innermost scope as FnRef
                fd = FnDef(it, self.frame.module, self.frame.self_ty)
                self.bind(it['name'], FnRef(fd=fd))
                self.local_fns[it['name']] = fd      # visible to itself (recursion) and to sibling items
                return UNIT
            if it['k'] in ('Use',):
                return UNIT
            if it['k'] == 'ItemMacro' and it['mac']['k'] == 'LazyStatic':
                for ls in it['mac']['statics']:
                    self.bind(ls['name'], self.eval(ls['expr']))
                return UNIT
            raise Unsupported('item statement %s' % it['k'], st)
        raise Unsupported('statement %s' % k, st)

    def _bind_pat_uninit(self, pat):
        if pat['k'] == 'PIdent':
            self.bind(pat['name'], None)
        elif pat['k'] == 'PType':
            self._bind_pat_uninit(pat['pat'])
        else:
            raise Unsupported('uninitialised let with pattern', pat)

    # ------------------------------------------------------------------ patterns
    def match_pat(self, pat, v, ref):
        """Match value v (located at `ref` if not None => bind by reference) against pat.
        Returns bool (forking on symbolic discriminants)."""
        k = pat['k']
        if k == 'PWild':
            return True
        if k == 'PRest':
            return True
        if k == 'PIdent':
            if pat['sub'] is not None:
                if not self.match_pat(pat['sub'], v, ref):
                    return False
            # a bare identifier may be a unit struct / enum variant / const: check
            if not pat['by_ref'] and not pat['mut'] and pat['sub'] is None:
                cv = self.lib.ident_pattern_value(pat['name'])
                if cv is not None:
                    return self.branch(self.lib.value_eq(self.deref(v), cv))
            if ref is not None and not isinstance(v, Ref):
                self.bind(pat['name'], ref)
            elif pat['by_ref'] and ref is not None:
                self.bind(pat['name'], ref)
            else:
                self.bind(pat['name'], v)
            return True
        if k == 'PType':
            return self.match_pat(pat['pat'], v, ref)
        if k == 'PRef':
            inner = v
            if isinstance(v, Ref):
                inner = self.load(v)
                return self.match_pat(pat['pat'], inner, None)
            return self.match_pat(pat['pat'], inner, None)
        # structural patterns: auto-deref references (default binding modes)
        if isinstance(v, Ref):
            tgt = self.as_ref(v) or v
            inner = self.load(tgt)
            if isinstance(inner, Union):
                inner = self.resolve_union(inner)
            return self.match_pat(pat, inner, tgt)
        if isinstance(v, Union):
            v = self.resolve_union(v)
        if k == 'PLit':
            lit = self.eval(pat['lit'])
            return self.branch(self.lib.value_eq(v, lit))
        if k == 'POr':
            for c in pat['cases']:
                mark = len(self.frame.scopes[-1])
                if self.match_pat(c, v, ref):
                    return True
            return False
        if k == 'PTuple':
            if not pat['elems'] and v is UNIT:
                return True
            if not isinstance(v, RTuple):
                raise Unsupported('tuple pattern on %r' % (v,), pat)
            elems = pat['elems']
            if any(e['k'] == 'PRest' for e in elems):
                raise Unsupported('rest in tuple pattern', pat)
            if len(elems) != len(v.items):
                raise Unsupported('tuple pattern arity', pat)
            for i, (e, x) in enumerate(zip(elems, v.items)):
                sub = Ref(ref.addr, ref.path + (('f', i),)) if ref is not None else None
                if not self.match_pat(e, x, sub):
                    return False
            return True
        if k in ('PTupleStruct', 'PStruct', 'PPath'):
            segs = [s['id'] for s in pat['path']['segs']]
            return self._match_ctor(pat, segs, v, ref)
        if k == 'PSlice':
            vec = v
            if not isinstance(vec, RVec):
                raise Unsupported('slice pattern on %r' % (v,), pat)
            vals = vec.values()
            elems = pat['elems']
            if any(e['k'] == 'PRest' for e in elems):
                raise Unsupported('rest in slice pattern', pat)
            if len(elems) != len(vals):
                return False
            for i, (e, x) in enumerate(zip(elems, vals)):
                if not self.match_pat(e, x, None):
                    return False
            return True
        raise Unsupported('pattern %s' % k, pat)

    def _match_ctor(self, pat, segs, v, ref):
        name = segs[-1]
        if name in ('Some', 'None', 'Ok', 'Err') and len(segs) == 1 or (len(segs) == 2 and segs[0] in ('Option', 'Result')):
            ty = 'Option' if name in ('Some', 'None') else 'Result'
            if not (isinstance(v, REnum) and v.ty == ty):
                raise Unsupported('%s pattern on %r' % (name, v), pat)
            if v.variant != name:
                return False
            if pat['k'] == 'PTupleStruct':
                sub = Ref(ref.addr, ref.path + (('p', name, 0),)) if ref is not None else None
                return self.match_pat(pat['elems'][0], v.payload[0], sub)
            return True
        # user enum variant or struct
        tinfo = self.lib.resolve_ctor(segs)
        if tinfo is None and isinstance(v, Opaque) and v.tag == name and pat['k'] == 'PStruct':
            # struct pattern on a library object (e.g. notify::Error { kind: .., .. })
            for f in pat['fields']:
                if f['member'] not in v.data:
                    raise Unsupported('library struct %s has no field %s in the model' % (name, f['member']), pat)
                if not self.match_pat(f['pat'], v.data[f['member']], None):
                    return False
            return True
        if tinfo is None:
            raise Unsupported('unknown constructor pattern %s' % '::'.join(segs), pat)
        kind, tyname, variant = tinfo
        if kind == 'variant':
            if isinstance(v, Opaque):
                raise Unsupported('enum pattern on opaque %r' % (v,), pat)
            if not (isinstance(v, REnum) and v.ty == tyname):
                raise Unsupported('pattern %s on %r' % ('::'.join(segs), v), pat)
            if v.variant != variant:
                return False
            if pat['k'] == 'PTupleStruct':
                for i, e in enumerate(pat['elems']):
                    if e['k'] == 'PRest':
                        break
                    sub = Ref(ref.addr, ref.path + (('p', variant, i),)) if ref is not None else None
                    if not self.match_pat(e, v.payload[i], sub):
                        return False
            elif pat['k'] == 'PStruct':
                for f in pat['fields']:
                    m = f['member']
                    if m not in v.payload:
                        raise Unsupported('no field %r in variant %s' % (m, variant), pat)
                    sub = Ref(ref.addr, ref.path + (('p', variant, m),)) if ref is not None else None
                    if not self.match_pat(f['pat'], v.payload[m], sub):
                        return False
            return True
        if kind == 'struct':
            if not (isinstance(v, RStruct) and v.ty == tyname):
                raise Unsupported('struct pattern %s on %r' % (tyname, v), pat)
            if pat['k'] == 'PStruct':
                for f in pat['fields']:
                    m = f['member']
                    sub = Ref(ref.addr, ref.path + (('f', m),)) if ref is not None else None
                    if not self.match_pat(f['pat'], v.fields[m], sub):
                        return False
            elif pat['k'] == 'PTupleStruct':
                for i, e in enumerate(pat['elems']):
                    sub = Ref(ref.addr, ref.path + (('f', i),)) if ref is not None else None
                    if not self.match_pat(e, v.fields[i], sub):
                        return False
            return True
        raise Unsupported('constructor pattern kind %s' % kind, pat)

    # ------------------------------------------------------------------ places
    def is_place_expr(self, e):
        k = e['k']
        if k == 'Path':
            return len(e['path']['segs']) == 1 and self.lookup_var(e['path']['segs'][0]['id']) is not None
        if k == 'Field':
            return self.is_place_expr(e['base']) or True
        if k == 'Index':
            return True
        if k == 'Unary' and e['op'] == '*':
            return True
        return False

    def eval_place(self, e):
        """Evaluate a place expression to a Ref (allocating a temporary for rvalues)."""
        k = e['k']
        if k == 'Path' and len(e['path']['segs']) == 1:
            a = self.lookup_var(e['path']['segs'][0]['id'])
            if a is not None:
                return Ref(a, ())
        if k == 'Field':
            base = self.eval_place(e['base'])
            base = self._through_refs(base)
            return Ref(base.addr, base.path + (('f', e['member']),))
        if k == 'Index':
            base = self._through_refs(self.eval_place(e['expr']))
            idx = self.deref(self.eval(e['index']))
            cont = self.load(base)
            if isinstance(cont, Union):
                cont = self.resolve_union(cont)
            if isinstance(cont, RMap):
                key = key_of(idx)
                ent = cont.entries.get(key)
                if ent is None or ent[0] is False:
                    raise PanicEx('map index: key not found: %r' % (idx,), e)
                if ent[0] is not True:
                    if not self.branch(ent[0]):
                        raise PanicEx('map index: key not found: %r' % (idx,), e)
                return Ref(base.addr, base.path + (('k', key),))
            if isinstance(cont, Opaque) and cont.tag == 'Captures':
                g = cont.get('groups')
                if isinstance(idx, int):
                    if idx >= len(g) or g[idx] is None:
                        raise PanicEx('no capture group at index %r' % (idx,), e)
                    return Ref(self.alloc(g[idx]), ())
                raise Unsupported('named capture groups', e)
            if isinstance(cont, str) and isinstance(idx, Opaque) and idx.tag == 'Range':
                # str slicing is by UTF-8 byte offsets and panics off a character boundary
                b = cont.encode('utf-8', 'surrogatepass')
                st = self.deref(idx.get('start')) if idx.get('start') is not None else 0
                en = self.deref(idx.get('end')) if idx.get('end') is not None else len(b)
                if not isinstance(st, int) or not isinstance(en, int):
                    raise Unsupported('symbolic str slice bounds', e)
                if idx.get('closed'):
                    en += 1
                if st > en or en > len(b):
                    raise PanicEx('byte index out of range for str slice [%d..%d] of %r' % (st, en, cont), e)
                for pos in (st, en):
                    if 0 < pos < len(b) and (b[pos] & 0xC0) == 0x80:
                        raise PanicEx('byte index %d is not a char boundary of %r' % (pos, cont), e)
                return Ref(self.alloc(b[st:en].decode('utf-8', 'surrogatepass')), ())
            if isinstance(cont, Opaque) and cont.tag == 'Buffer' and isinstance(idx, Opaque) and idx.tag == 'Range':
                return Ref(self.alloc(Opaque('Slice', chunk=cont.get('chunk'), upto=idx.get('end'))), ())
            if isinstance(cont, RVec):
                if isinstance(idx, Opaque) and idx.tag == 'Range':
                    tmp = self.alloc(self.lib.slice_range(cont, idx, e))
                    return Ref(tmp, ())
                if not isinstance(idx, int):
                    raise Unsupported('symbolic vector index', e)
                vals = cont.values()
                if idx >= len(vals):
                    raise PanicEx('index out of bounds', e)
                return Ref(base.addr, base.path + (('i', idx),))
            raise Unsupported('index into %r' % (cont,), e)
        if k == 'Unary' and e['op'] == '*':
            v = self.eval(e['expr'])
            if isinstance(v, Ref):
                return self.as_ref(v) or v
            return Ref(self.alloc(v), ())
        v = self.eval(e)
        return Ref(self.alloc(v), ())

    def _through_refs(self, ref):
        """If the place holds a reference, continue in the referent."""
        while True:
            v = self.load(ref)
            if isinstance(v, Ref):
                ref = v
            elif isinstance(v, Union):
                raise Unsupported('place through unresolved union')
            else:
                return ref

    # ------------------------------------------------------------------ expressions
    def eval(self, e):
        k = e['k']
        m = getattr(self, 'ev_' + k, None)
        if m is None:
            raise Unsupported('expression kind %s' % k, e)
        return m(e)

    def ev_Unsupported(self, e):
        raise Unsupported('front end: %s: %s' % (e['what'], e['src'][:60]), e)

    def ev_LitStr(self, e):
        return e['v']

    def ev_LitInt(self, e):
        return int(e['v'])

    def ev_LitBool(self, e):
        return e['v']

    def ev_LitChar(self, e):
        return Opaque('char', c=e['v'])

    def ev_LitByteStr(self, e):
        return RVec.of(e['v'])

    def ev_Path(self, e):
        segs = [s['id'] for s in e['path']['segs']]
        if len(segs) == 1:
            a = self.lookup_var(segs[0])
            if a is not None:
                v = self.store[a]
                if v is None:
                    raise Unsupported('use of uninitialised variable %s' % segs[0], e)
                return v
        return self.lib.path_value(segs, e)

    def ev_Field(self, e):
        base = e['base']
        if self._is_pure_place(base):
            r = self.eval_place(e)
            return self.load(r)
        v = self.deref(self.eval(base))
        return self._proj(v, ('f', e['member']))

    def _is_pure_place(self, e):
        k = e['k']
        if k == 'Path':
            return len(e['path']['segs']) == 1 and self.lookup_var(e['path']['segs'][0]['id']) is not None
        if k == 'Field':
            return self._is_pure_place(e['base'])
        if k == 'Index':
            return self._is_pure_place(e['expr'])
        if k == 'Unary' and e['op'] == '*':
            return True
        return False

    def ev_Index(self, e):
        return self.load(self.eval_place(e))

    def ev_Ref(self, e):
        inner = e['expr']
        if e['mut']:
            return self.eval_place(inner)
        # shared reference: a snapshot value is enough, except when the referent is a place holding
        # a container we may later need by identity (never mutated through &): use the value.
        if self._is_pure_place(inner):
            r = self.eval_place(inner)
            v = self.load(r)
            if isinstance(v, Ref):
                return v
            return v
        return self.eval(inner)

    def ev_Unary(self, e):
        op = e['op']
        if op == '*':
            v = self.eval(e['expr'])
            if isinstance(v, Ref):
                return self.load(self.as_ref(v) or v)
            return v
        v = self.deref(self.eval(e['expr']))
        if op == '!':
            if is_boolish(v):
                return b_not(v)
            if is_intish(v):
                return ~v
            raise Unsupported('! on %r' % (v,), e)
        if op == '-':
            return -v
        raise Unsupported('unary %s' % op, e)

    def ev_Binary(self, e):
        op = e['op']
        if op == '&&':
            l = self.deref(self.eval(e['left']))
            if not self.branch(l):
                return False
            return self.deref(self.eval(e['right']))
        if op == '||':
            l = self.deref(self.eval(e['left']))
            if self.branch(l):
                return True
            return self.deref(self.eval(e['right']))
        if op in ('+=', '-=', '*=', '|=', '&='):
            place = self.eval_place(e['left'])
            tgt = self.as_ref(self.load(place)) if isinstance(self.load(place), Ref) else place
            cur = self.deref(self.load(tgt))
            r = self.deref(self.eval(e['right']))
            self.store_at(tgt, self.lib.binop(op[:-1], cur, r, e))
            return UNIT
        l = self.deref(self.eval(e['left']))
        r = self.deref(self.eval(e['right']))
        return self.lib.binop(op, l, r, e)

    def ev_Assign(self, e):
        left = e['left']
        v = self.eval(e['right'])
        if left['k'] == 'Unary' and left['op'] == '*':
            r = self.eval(left['expr'])
            if not isinstance(r, Ref):
                raise Unsupported('assignment through non-reference', e)
            self.store_at(self.as_ref(r) or r, v)
            return UNIT
        if left['k'] == 'PWild' or (left['k'] == 'Path' and left['path']['str'] == '_'):
            return UNIT
        place = self.eval_place(left)
        if isinstance(v, Opaque) and v.tag == 'Collected':
            # `place = iter.collect()`: the target type is that of the place; take it from the value it holds now
            try:
                old = self.deref(place)
            except Exception:
                old = None
            ty = {RVec: 'Vec<_>', RSet: 'HashSet<_>', RMap: 'HashMap<_>'}.get(type(old))
            if ty is not None:
                if isinstance(old, (RSet, RMap)) and old.ordered:
                    ty = 'BTree' + ty[4:]
                v = self.lib.collect_as(v, ty)
        self.store_at(place, v)
        return UNIT

    def ev_Tuple(self, e):
        if not e['elems']:
            return UNIT
        return RTuple(self.eval(x) for x in e['elems'])

    def ev_Array(self, e):
        return RVec.of(self.eval(x) for x in e['elems'])

    def ev_Repeat(self, e):
        n = self.eval(e['len'])
        v = self.eval(e['expr'])
        if isinstance(n, int) and n > 64:
            return Opaque('Buffer', len=n)
        return RVec.of([v] * n)

    def ev_BlockExpr(self, e):
        try:
            return self.exec_block(e['block'])
        except BreakEx as b:
            if e['label'] is not None and b.label == e['label']:
                return b.value
            raise

    def ev_Block(self, e):
        return self.exec_block(e)

    def ev_If(self, e):
        cond = e['cond']
        self.frame.scopes.append({})
        try:
            if self.eval_cond(cond):
                return self.exec_block(e['then'])
            if e['else'] is not None:
                self.frame.scopes[-1].clear()
                return self.eval(e['else'])
            return UNIT
        finally:
            self.frame.scopes.pop()

    def eval_cond(self, cond):
        if cond['k'] == 'LetCond':
            scr = cond['expr']
            if self._is_pure_place(scr):
                ref = self.eval_place(scr)
                v = self.load(ref)
                if isinstance(v, Ref):
                    return self.match_pat(cond['pat'], v, None)
                if isinstance(v, Union):
                    v = self.resolve_union(v)
                # matching a place by value moves out of it: bind by value
                return self.match_pat(cond['pat'], v, None)
            v = self.eval(scr)
            return self.match_pat(cond['pat'], v, None)
        if cond['k'] == 'Binary' and cond['op'] == '&&':
            return self.eval_cond(cond['left']) and self.eval_cond(cond['right'])
        return self.branch(self.deref(self.eval(cond)))

    def ev_LetCond(self, e):
        return self.eval_cond(e)

    def ev_Match(self, e):
        scr = e['expr']
        v = self.eval(scr)
        if isinstance(v, Union):
            v = self.resolve_union(v)
        for arm in e['arms']:
            self.frame.scopes.append({})
            try:
                if self.match_pat(arm['pat'], v, None):
                    if arm['guard'] is not None:
                        if not self.branch(self.deref(self.eval(arm['guard']))):
                            continue
                    return self.eval(arm['body'])
            finally:
                self.frame.scopes.pop()
        raise PanicEx('non-exhaustive match (no arm matched %r)' % (v,), e)

    def ev_Matches(self, e):
        v = self.eval(e['expr'])
        self.frame.scopes.append({})
        try:
            if self.match_pat(e['pat'], v, None):
                if e['guard'] is not None:
                    return self.deref(self.eval(e['guard']))
                return True
            return False
        finally:
            self.frame.scopes.pop()

    def ev_Loop(self, e):
        n = 0
        while True:
            n += 1
            if n > 200:
                raise Unsupported('loop unwinding bound (200) exceeded', e)
            try:
                self.exec_block(e['body'])
            except BreakEx as b:
                if b.label is None or b.label == e['label']:
                    return b.value if b.value is not None else UNIT
                raise
            except ContinueEx as c:
                if c.label is None or c.label == e['label']:
                    continue
                raise

    def ev_While(self, e):
        n = 0
        while True:
            n += 1
            if n > 200:
                raise Unsupported('loop unwinding bound (200) exceeded', e)
            self.frame.scopes.append({})     # bindings of a `while let` stay visible in the body
            try:
                if self.skipping is not None and self._contains_skip_target(e['body']):
                    pass  # resuming inside the body: the condition was evaluated before the suspension
                else:
                    if not self.eval_cond(e['cond']):
                        return UNIT
                try:
                    self.exec_block(e['body'])
                except BreakEx as b:
                    if b.label is None or b.label == e['label']:
                        return UNIT
                    raise
                except ContinueEx as c:
                    if c.label is None or c.label == e['label']:
                        continue
                    raise
            finally:
                self.frame.scopes.pop()

    def ev_For(self, e):
        it = self.eval(e['expr'])
        items = self.lib.iterate(it, e)
        for (g, x) in items:
            if g is not True:
                if not self.branch(g):
                    continue
            self.frame.scopes.append({})
            try:
                if not self.match_pat(e['pat'], x, None):
                    raise Unsupported('refutable for pattern', e)
                try:
                    self.exec_block(e['body'])
                except BreakEx as b:
                    if b.label is None or b.label == e['label']:
                        return UNIT
                    raise
                except ContinueEx as c:
                    if c.label is None or c.label == e['label']:
                        continue
                    raise
            finally:
                self.frame.scopes.pop()
        return UNIT

    def ev_Break(self, e):
        v = self.eval(e['expr']) if e['expr'] is not None else None
        raise BreakEx(e['label'], v)

    def ev_Continue(self, e):
        raise ContinueEx(e['label'])

    def ev_Return(self, e):
        v = self.eval(e['expr']) if e['expr'] is not None else UNIT
        raise ReturnEx(v)

    def ev_Try(self, e):
        v = self.deref(self.eval(e['expr']))
        if isinstance(v, REnum) and v.ty == 'Result':
            if v.variant == 'Ok':
                return v.payload[0]
            raise ReturnEx(err(v.payload[0]))
        if isinstance(v, REnum) and v.ty == 'Option':
            if v.variant == 'Some':
                return v.payload[0]
            raise ReturnEx(NONE)
        raise Unsupported('? on %r' % (v,), e)

    def ev_Closure(self, e):
        return Closure(e, list(self.frame.scopes), self.frame.module, self.frame.self_ty, e['async'])

    def ev_Async(self, e):
        return Opaque('Future', kind='block', node=e['block'], scopes=tuple(self.frame.scopes), module=self.frame.module,
                      self_ty=self.frame.self_ty, fd=self.frame.fd)

    def ev_Await(self, e):
        f = self.eval(e['base'])
        return self.await_value(f, e)

    def await_value(self, f, node):
        f0 = f
        if isinstance(f, Ref):
            f = self.deref(f)
        if isinstance(f, Union):
            f = self.resolve_union(f)
        if isinstance(f, Opaque) and f.tag == 'Future':
            kind = f.get('kind')
            if kind == 'call':
                return self.call_fn(f.get('fd'), list(f.get('args').items), self_arg=f.get('self_arg'), node=node)
            if kind == 'block':
                fr = Frame(f.get('fd'), f.get('module'), f.get('self_ty'))
                fr.scopes = list(f.get('scopes')) + [{}]
                self.frames.append(fr)
                try:
                    try:
                        return self.exec_block(f.get('node'))
                    except ReturnEx as r:
                        return r.value
                finally:
                    self.frames.pop()
            if kind == 'ready':
                return f.get('value')
            return self.lib.await_prim(f, node, f0)
        # library models may return the completed value of an async call directly
        if isinstance(f, (bool, int, str, REnum, RStruct, RTuple, RVec, RSet, RMap)) or f is UNIT or is_sym(f) or (isinstance(f, Opaque) and f.tag != 'Future'):
            return f
        raise Unsupported('await on %r' % (f,), node)

    def ev_Call(self, e):
        func = e['func']
        if func['k'] == 'Path':
            segs = [s['id'] for s in func['path']['segs']]
            if len(segs) == 1:
                a = self.lookup_var(segs[0])
                if a is not None:
                    args = [self.eval(x) for x in e['args']]
                    return self.call_value(self.store[a], args, e)
            # constructors
            ctor = self.lib.try_ctor_call(segs, e)
            if ctor is not None:
                return ctor
            fd = self.prog.lookup_fn(self.frame.module, segs, self.frame.self_ty)
            if fd is None and len(segs) == 1 and segs[0] in self.local_fns:
                fd = self.local_fns[segs[0]]
            args = [self.eval(x) for x in e['args']]
            if fd is not None:
                if fd.is_async:
                    return Opaque('Future', kind='call', fd=fd, args=RTuple(args), self_arg=None)
                return self.call_fn(fd, args, node=e)
            return self.lib.call_path('::'.join(segs), args, e, generic_args=func['path']['segs'])
        f = self.eval(func)
        args = [self.eval(x) for x in e['args']]
        return self.call_value(f, args, e)

    def ev_MethodCall(self, e):
        recv = e['recv']
        method = e['method']
        # (a field / element of a call result, e.g. `self.metadata_mut().dependencies.extend(..)`: the call may return a reference, so the
        # receiver is evaluated as a place -- eval_place evaluates the inner call once and follows the reference it returns)
        if self._is_pure_place(recv) or recv['k'] in ('Field', 'Index'):
            r = self.eval_place(recv)
            rv = self.load(r)
            self_val = rv if isinstance(rv, Ref) else r
        else:
            v = self.eval(recv)
            self_val = v if isinstance(v, Ref) else Ref(self.alloc(v), ())
        args = [self.eval(x) for x in e['args']]
        return self.call_method(self_val, method, args, e)

    def call_method(self, self_ref, method, args, node):
        tgt = self.as_ref(self_ref) or self_ref
        v = self.load(tgt)
        if isinstance(v, Union):
            v = self.resolve_union(v)
            tgt = Ref(self.alloc(v), ())   # resolved copy (unions are only read, never mutated in place)
        # user-defined method?
        tyname = None
        if isinstance(v, RStruct):
            tyname = v.ty
        elif isinstance(v, REnum) and v.ty not in ('Option', 'Result'):
            tyname = v.ty
        if tyname is not None:
            fd = self.lib.find_user_method(tyname, method)
            if fd is not None:
                if fd.is_async:
                    sa = tgt
                    recv = [p for p in fd.node['inputs'] if p['self']]
                    if recv and not recv[0]['ref']:
                        sa = self.load(tgt)     # `self` by value: the future owns the receiver
                    return Opaque('Future', kind='call', fd=fd, args=RTuple(args), self_arg=sa)
                return self.call_fn(fd, args, self_arg=tgt, node=node)
        return self.lib.call_method(tgt, v, method, args, node)

    def ev_StructLit(self, e):
        segs = [s['id'] for s in e['path']['segs']]
        tinfo = self.lib.resolve_ctor(segs)
        fields = {}
        for f in e['fields']:
            fields[f['member']] = self.eval(f['expr'])
        if tinfo is None:
            raise Unsupported('struct literal of unknown type %s' % '::'.join(segs), e)
        kind, tyname, variant = tinfo
        if kind == 'struct':
            if e['rest'] is not None:
                base = self.deref(self.eval(e['rest']))
                allf = dict(base.fields)
                allf.update(fields)
                fields = allf
            decl = self.lib.struct_fields(tyname)
            if decl is not None:
                fields = {n: self.coerce(fields[n], t) if n in fields else None for n, t in decl}
                if any(v is None for v in fields.values()):
                    raise Unsupported('missing struct field', e)
            return RStruct(tyname, fields)
        if kind == 'variant':
            return REnum(tyname, variant, fields)
        raise Unsupported('struct literal', e)

    def ev_Cast(self, e):
        v = self.deref(self.eval(e['expr']))
        return self.lib.cast(v, e['ty'], e)

    def ev_Range(self, e):
        s = self.eval(e['start']) if e['start'] is not None else None
        t = self.eval(e['end']) if e['end'] is not None else None
        return Opaque('Range', start=s, end=t, closed=e['closed'])

    def ev_MacroCall(self, e):
        return self.lib.macro(e)

    def ev_LazyStatic(self, e):
        for ls in e['statics']:
            self.bind(ls['name'], self.eval(ls['expr']))
        return UNIT

    def ev_Select(self, e):
        sid = e['_id']
        if self.skipping == sid:
            self.skipping = None
            r = self.resume
            self.resume = None
            return self._run_select_arm(e, r['arm'], r['value'])
        if self.trace_pos < len(self.trace) and self.trace[self.trace_pos][0] == sid:
            _, arm, value = self.trace[self.trace_pos]
            self.trace_pos += 1
            return self._run_select_arm(e, arm, value)
        arms = []
        for arm in e['arms']:
            fv = self.eval(arm['fut'])
            arms.append(self.lib.classify_future(fv, arm))
        self.suspend(sid, 'select', {'arms': arms, 'node': e})

    def _run_select_arm(self, e, arm_idx, value):
        arm = e['arms'][arm_idx]
        # a completed Fuse<user future> becomes terminated; a terminated one can never fire
        fut = arm['fut']
        if self._is_pure_place(fut):
            r = self.eval_place(fut)
            r = self.as_ref(self.load(r)) if isinstance(self.load(r), Ref) else r
            fv = self.load(r)
            if isinstance(fv, Union):
                fv = self.resolve_union(fv)
            if isinstance(fv, Opaque) and fv.tag == 'Fuse':
                inner = fv.get('inner')
                if isinstance(inner, Union):
                    inner = self.resolve_union(inner)
                if inner is None:
                    raise DisabledEx()
                self.fired_future = inner
                self.store_at(r, Opaque('Fuse', inner=None))
        self.frame.scopes.append({})
        try:
            if not self.match_pat(arm['pat'], value, None):
                raise Unsupported('select arm pattern did not match', arm)
            return self.eval(arm['body'])
        finally:
            self.frame.scopes.pop()

    # ------------------------------------------------------------------ entry points
    def run_fn(self, fd, args, self_arg=None):
        """Run a (sync or async) function to completion or suspension on the current path."""
        return self.call_fn(fd, args, self_arg=self_arg)

    def resume_in_frame(self, fd, env, select_id, arm, value):
        """Resume function `fd` at the select `select_id` (arm fired with `value`) with locals `env`
        (name -> value). Runs until the function returns or suspends again."""
        fr = Frame(fd, fd.module, fd.impl_ty)
        self.frames.append(fr)
        for name, v in env.items():
            if isinstance(v, RStruct) and v.ty == '$ref':
                v = Ref(self.alloc(v.fields[0]), ())
            self.bind(name, v)
        self.skipping = select_id
        self.resume = {'arm': arm, 'value': value}
        try:
            try:
                v = self.exec_block(fd.node['body'])
            except ReturnEx as e:
                v = e.value
            if self.skipping is not None:
                raise Unsupported('resume target select not reached in %s' % fd.qname)
            return v
        finally:
            # keep the frame for inspection on suspension (frames list is captured by explore)
            if self.frames and self.frames[-1] is fr:
                self.frames.pop()

    def frame_env(self, fr):
        """Flatten the visible variables of a frame: name -> value."""
        env = {}
        for sc in fr.scopes:
            for n, a in sc.items():
                env[n] = self.store[a]
        return env
