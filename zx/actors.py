"""Actor models: step summaries of the three target actors, derived from the source.

For a universe of n targets t0..t{n-1} (dependencies only on lower indices), actor i of a given
kind is created by interpreting `launch_target_actor` and its `run` loop is summarised with
LoopCoroutine. Incoming messages range over the whole message universe (symbolic selector).
"""
import z3

from .prog import Unsupported
from .summ import LoopCoroutine, StraightCoroutine
from .values import (NONE, UNIT, Opaque, REnum, RMap, RSet, RStruct, RTuple, RVec, Ref, Union, err, ok, some)
from .world import ProtoWorld

KINDS = ('Build', 'Service')

# type ids of domain types whose simple name is not unique in the crate (set by init_types)
TY = {'Target': 'Target'}


def init_types(prog):
    for name, mod in (('Target', ('domain',)),):
        c = prog.types_by_name.get(name, [])
        TY[name] = '::'.join(mod + (name,)) if len(c) > 1 else name


def tid(name, project=None):
    return RStruct('TargetId', {'project_name': NONE if project is None else some(project), 'target_name': name})


def tname(i):
    return 't%d' % i


def actor_id_root():
    return REnum('ActorId', 'Root')


def actor_id_target(name):
    return REnum('ActorId', 'Target', {0: tid(name)})


def ekind(k):
    return REnum('ExecutionKind', k)


def resources(files=(), cmds=()):
    return RStruct('Resources', {'files': RVec.of(files), 'cmds': RVec.of(cmds)})


def metadata(name, deps):
    """deps: list of (guard, depname)"""
    return RStruct('TargetMetadata', {'id': tid(name), 'project_dir': '/p', 'dependencies': RVec((g, tid(d)) for g, d in deps)})


def mk_target(kind, name, deps, input_nonempty=False):
    md = metadata(name, deps)
    inp = resources(files=[RStruct('FilesResource', {'paths': RVec.of(['/p/src']), 'extensions': NONE})]) if input_nonempty else resources()
    if kind == 'build':
        return REnum(TY['Target'], 'Build', {0: RStruct('BuildTarget', {'metadata': md, 'build_script': 'script', 'input': inp, 'output': resources()})})
    if kind == 'service':
        return REnum(TY['Target'], 'Service', {0: RStruct('ServiceTarget', {'metadata': md, 'run_script': 'script', 'input': inp})})
    if kind == 'aggregate':
        return REnum(TY['Target'], 'Aggregate', {0: RStruct('AggregateTarget', {'metadata': md})})
    raise ValueError(kind)


# ---------------------------------------------------------------------- message universe
def input_messages(me, senders_ok, requesters):
    """All ActorInputMessage values actor `me` can receive: list of (label, value-builder(actual))."""
    out = []
    for k in KINDS:
        for r in requesters:
            rv = actor_id_root() if r == 'ROOT' else actor_id_target(r)
            out.append((('Requested', k, r), lambda a, k=k, rv=rv: REnum('ActorInputMessage', 'Requested', {'kind': ekind(k), 'requester': rv})))
            out.append((('Unrequested', k, r), lambda a, k=k, rv=rv: REnum('ActorInputMessage', 'Unrequested', {'kind': ekind(k), 'requester': rv})))
        for d in senders_ok:
            out.append((('Ok', k, d), lambda a, k=k, d=d: REnum('ActorInputMessage', 'Ok', {'kind': ekind(k), 'target_id': tid(d), 'actual': a})))
            out.append((('Invalidated', k, d), lambda a, k=k, d=d: REnum('ActorInputMessage', 'Invalidated', {'kind': ekind(k), 'target_id': tid(d)})))
    return out


def decode_output(msg):
    """TargetActorOutputMessage value -> ('err', target) | ('msg', dest, (variant, kind, who), actual)"""
    if msg.variant == 'TargetExecutionError':
        return ('err', msg.payload[0].fields['target_name'], msg.payload[1])
    dest = msg.payload['dest']
    d = 'ROOT' if dest.variant == 'Root' else dest.payload[0].fields['target_name']
    m = msg.payload['msg']
    kind = m.payload['kind'].variant
    if m.variant in ('Requested', 'Unrequested'):
        r = m.payload['requester']
        who = 'ROOT' if r.variant == 'Root' else r.payload[0].fields['target_name']
        return ('msg', d, (m.variant, kind, who), None)
    who = m.payload['target_id'].fields['target_name']
    return ('msg', d, (m.variant, kind, who), m.payload.get('actual'))


# ---------------------------------------------------------------------- stubs for protocol-level queries
def proto_stubs():
    """Environment stand-ins, at zinoma function boundaries, used by the actor-protocol queries only.
    The functions stubbed here are verified on their own by the incremental-state checks."""
    def unchanged(I, fd, args, self_arg, node):
        return I.fresh('env_unchanged')

    def delete_state(I, fd, args, self_arg, node):
        I.effect('fs', op='delete_state')
        if I.branch(I.fresh('delete_state_fails')):
            return err(Opaque('Error', msg='delete failed', site=0, file=''))
        return ok(UNIT)

    def current_state(I, fd, args, self_arg, node):
        k = I.choose([I.fresh('state_none'), z3.Not(z3.Bool('state_none#0'))]) if False else 0
        if I.branch(I.fresh('state_err')):
            return err(Opaque('Error', msg='state failed', site=0, file=''))
        if I.branch(I.fresh('state_none')):
            return ok(NONE)
        return ok(some(Opaque('EnvState')))

    def save_state(I, fd, args, self_arg, node):
        I.effect('fs', op='save_state')
        if I.branch(I.fresh('save_fails')):
            return err(Opaque('Error', msg='save failed', site=0, file=''))
        return ok(UNIT)

    def mk_future(f):
        def stub(I, fd, args, self_arg, node):
            if fd.is_async:
                return f(I, fd, args, self_arg, node)
            return f(I, fd, args, self_arg, node)
        return stub

    def watcher_new(I, fd, args, self_arg, node):
        I.effect('watcher_new', target=I.deref(args[0]))
        if I.branch(I.fresh('watcher_fails')):
            return err(Opaque('Error', msg='watch failed', site=0, file=''))
        return ok(some(Opaque('TargetWatcher')))
    return {
        'incremental::env_state_has_not_changed_since_last_successful_execution': unchanged,
        'storage::delete_saved_env_state': delete_state,
        'TargetEnvState::current': current_state,
        'storage::save_env_state': save_state,
        'TargetWatcher::new': watcher_new,
    }


class ActorModel:
    """Summary of one target actor (index i, kind) in a universe of n targets."""

    def __init__(self, prog, kind, i, n, watch, dep_syms=None, all_senders=False, dup_sym=None):
        self.prog = prog
        init_types(prog)
        self.kind = kind
        self.i = i
        self.n = n
        self.watch = watch
        self.me = tname(i)
        self.dep_names = [tname(j) for j in range(i)]
        self.req_names = ['ROOT'] + [tname(j) for j in range(i + 1, n)]
        if all_senders:
            self.dep_names = [tname(j) for j in range(n) if j != i]
            self.req_names = ['ROOT'] + [tname(j) for j in range(n) if j != i]
        self.dep_syms = dep_syms if dep_syms is not None else [z3.Bool('dep_%d_%d' % (i, j)) for j in range(len(self.dep_names))]
        # LOCAL only: the first potential dependency may be listed twice (nothing de-duplicates `dependencies` + `X.output`, or a bare
        # and a qualified spelling of one target)
        self.dup_sym = dup_sym
        self.world = ProtoWorld()
        self.world.owner = ''
        self.stubs = proto_stubs()
        self.msgs = input_messages(self.me, self.dep_names, self.req_names)
        self.sel_w = max(1, (len(self.msgs) - 1).bit_length())
        self.ev_sel = z3.BitVec('ev_sel', self.sel_w)
        self.ev_actual = z3.Bool('ev_actual')
        self.roles = {}
        self.launch_effects = None

    # the coroutine start: launch_target_actor(...) then run the spawned task
    def _start(self, I):
        fd = self.prog.find_fn('target_actor::launch_target_actor')
        deps = list(zip(self.dep_syms, self.dep_names))
        if self.dup_sym is not None and deps:
            deps.append((z3.And(self.dup_sym, self.dep_syms[0]), self.dep_names[0]))
        target = mk_target(self.kind, self.me, deps, input_nonempty=True)
        wopt = REnum('WatchOption', 'Enabled' if self.watch else 'Disabled')
        res = I.call_fn(fd, [target, wopt, Opaque('Sender', chan='OUT')])
        res = I.deref(res)
        if res.variant != 'Ok':
            from .interp import ReturnEx
            raise ReturnEx(res)
        jh, handles = res.payload[0].items
        tasks = [e for e in I.effects if e[0] == 'task']
        if len(tasks) != 1:
            raise Unsupported('launch_target_actor spawned %d tasks' % len(tasks))
        self.roles = {
            handles.fields['termination_sender'].get('chan'): 'term',
            handles.fields['target_actor_input_sender'].get('chan'): 'inbox',
            handles.fields['_target_invalidated_sender'].get('chan'): 'inval',
        }
        self.handles = handles
        self.launch_effects = list(I.effects)
        I.effects.append(('launched', {}))
        return I.await_value(tasks[0][1]['future'], {'_id': -1, 'line': 0, '_file': 'launch'})

    def _event_value(self, co, ai, arm):
        k = arm['kind']
        if k == 'recv':
            role = self.roles.get(arm['chan'])
            if role == 'term':
                return {'value': some(RStruct('TerminationMessage', {})), 'role': 'term'}
            if role == 'inval':
                return {'value': some(RStruct('TargetInvalidatedMessage', {})), 'role': 'inval'}
            if role == 'inbox':
                alts = []
                for idx, (label, mk) in enumerate(self.msgs):
                    alts.append((self.ev_sel == idx, some(mk(self.ev_actual))))
                cons = []
                if len(self.msgs) < (1 << self.sel_w):
                    cons.append(z3.ULT(self.ev_sel, z3.BitVecVal(len(self.msgs), self.sel_w)))
                return {'value': Union(alts), 'role': 'inbox', 'constraints': cons}
            raise Unsupported('select arm on unknown channel %s' % arm['chan'])
        if k in ('nested', 'terminated'):
            # completion of the build future: result is an event parameter
            r = z3.BitVec('ev_build_result', 2)
            val = Union([
                (r == 0, ok(REnum('IncrementalRunResult', 'Skipped'))),
                (r == 1, ok(REnum('IncrementalRunResult', 'Completed'))),
                (r == 2, ok(REnum('IncrementalRunResult', 'Cancelled'))),
                (r == 3, err(Opaque('Error', msg='build failed', site=0, file=''))),
            ])
            return {'value': val, 'role': 'build_done'}
        raise Unsupported('select arm kind %s' % k)

    def build(self):
        run_fd = {'build': 'BuildTargetActor::run', 'service': 'ServiceTargetActor::run', 'aggregate': 'AggregateTargetActor::run'}[self.kind]
        fd = self.prog.find_fn(run_fd)
        self.co = LoopCoroutine(self.prog, self.world, fd, self._start, stubs=self.stubs,
                                name='a%d' % self.i, event_value=self._event_value)
        self.co.build()
        self.arm_roles = {}
        for ai, arm in enumerate(self.co.arms_desc):
            ev = self._event_value(self.co, ai, arm)
            self.arm_roles[ev['role']] = ai
        return self
