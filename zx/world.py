"""Environment models ("worlds") for the ZX interpreter.

ProtoWorld: channels / tasks / processes for the actor-protocol queries.  Sends never block
(relay folding, DESIGN 3.2); every environment interaction is recorded as an effect, every
environment choice is a named oracle symbol.
"""
import z3

from .prog import Unsupported
from .values import NONE, UNIT, Opaque, REnum, RTuple, Ref, Union, b_not, err, ok, some


class ProtoWorld:
    def __init__(self):
        self.chan_caps = {}      # chan id -> capacity (None = unbounded), filled while interpreting
        self.reset()

    def reset(self):
        self.n_chan = {}
        self.n_proc = {}
        self.full = {}           # chan id -> symbolic/concrete fullness for try_send (cap-1 slots)
        self.closed = {}
        self.killed = set()      # processes killed on this path (their status() completes at once)

    # channels -----------------------------------------------------------------
    def new_channel(self, I, cap, node):
        site = '%s:%d' % (node['_file'].split('/')[-1].replace('.rs', ''), node['line'])
        k = self.n_chan.get(site, 0)
        self.n_chan[site] = k + 1
        owner = getattr(self, 'owner', '')
        cid = '%s%s#%d' % (owner, site, k)
        self.chan_caps[cid] = cap
        self.full[cid] = False
        I.effect('new_channel', chan=cid, cap=cap)
        return RTuple((Opaque('Sender', chan=cid), Opaque('Receiver', chan=cid)))

    def send(self, I, chan, msg, node):
        I.effect('send', chan=chan, msg=msg, line=node['line'])
        return ok(UNIT)

    def try_send(self, I, chan, msg, node):
        if chan == 'OUT':
            # the channel to the engine: in SYS/LOCAL it is never full (capacity blocking is SYSQ's subject); the effect is marked so that
            # SYSQ can drop the message when its explicit output queue has no room
            I.effect('send', chan=chan, msg=msg, line=node['line'], try_=True)
            return ok(UNIT)
        full = self.full.get(chan)
        if full is None:
            full = I.fresh('full:' + chan)
        if I.branch(full):
            return err(REnum('TrySendError', 'Full', {0: msg}))
        self.full[chan] = True
        I.effect('send', chan=chan, msg=msg, line=node['line'], try_=True)
        return ok(UNIT)

    def try_recv(self, I, chan, node):
        raise Unsupported('try_recv', node)

    def chan_query(self, I, chan, method, node):
        raise Unsupported('channel query %s' % method, node)

    def chan_close(self, I, chan, node):
        I.effect('close', chan=chan)
        return True

    # tasks / processes ------------------------------------------------------------
    def spawn_task(self, I, fut, node):
        f = I.deref(fut)
        I.effect('task', future=f, line=node['line'])
        return Opaque('JoinHandle', task=len([e for e in I.effects if e[0] == 'task']) - 1)

    def spawn_process(self, I, cmd, node):
        site = '%s:%d' % (node['_file'].split('/')[-1].replace('.rs', ''), node['line'])
        fails = I.fresh('spawn_fails@' + site)
        if I.branch(fails):
            I.effect('spawn_failed', site=site, line=node['line'])
            return err(Opaque('IoError', msg='spawn failed', kind=REnum('ErrorKind', 'Other')))
        k = self.n_proc.get(site, 0)
        self.n_proc[site] = k + 1
        pid = '%s%s#%d' % (getattr(self, 'owner', ''), site, k)
        I.effect('spawn', proc=pid, cmd=cmd, line=node['line'])
        return ok(Opaque('Child', proc=pid))

    def kill_process(self, I, proc, node):
        # assumption (stated in evidence): SIGKILL succeeds and the killed child exits promptly
        I.effect('kill', proc=proc, line=node['line'])
        self.killed.add(proc)
        return ok(UNIT)

    def status_of_killed(self, I, proc, node):
        if proc in self.killed:
            I.effect('reap', proc=proc, line=node['line'])
            return ok(Opaque('ExitStatus', success=False))
        return None

    def new_watcher(self, I, handler, node):
        I.effect('watcher', handler=handler)
        return ok(Opaque('Watcher'))

    def cmd_output(self, I, cmd, node):
        raise Unsupported('Command::output in protocol world', node)

    def select2(self, I, f, node):
        raise Unsupported('future::select in protocol world', node)

    def path_query(self, I, path, method, node):
        raise Unsupported('file system query %s in protocol world' % method, node)

    def call_path(self, I, name, args, node):
        return NotImplemented

    def call_method(self, I, ref, v, method, args, node):
        if isinstance(v, Opaque) and v.tag == 'Watcher' and method == 'watch':
            I.effect('watch', path=I.deref(args[0]))
            return ok(UNIT)
        return NotImplemented
