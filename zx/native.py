"""Native replay target: the real zinoma sources compiled against the model crates (models-rs).

build_native(repo) copies <repo>/src into a scratch crate outside /repo and /verif, generates its
Cargo.toml from <repo>/Cargo.toml (the five runtime crates become path dependencies on the models,
everything else stays the real crate from <repo>/Cargo.lock) and builds it offline.  No hook in /repo.
"""
import hashlib
import os
import re
import shutil
import subprocess
import tempfile
import time

VERIF = os.path.dirname(os.path.dirname(os.path.abspath(__file__)))
MODELS = os.path.join(VERIF, 'models-rs')
CACHE = os.environ.get('ZX_CACHE', os.path.join(VERIF, '.cache'))
MODEL_CRATES = ['async-std', 'async-process', 'notify', 'async-ctrlc', 'jemallocator']


def _src_hash(repo):
    h = hashlib.sha256()
    for base in (os.path.join(repo, 'src'), MODELS, os.path.join(VERIF, 'replay')):
        for d, dirs, fs in sorted(os.walk(base)):
            dirs[:] = sorted(x for x in dirs if x != 'target')
            for f in sorted(fs):
                if f.endswith('.rs') or f == 'Cargo.toml':
                    p = os.path.join(d, f)
                    h.update(p.encode())
                    h.update(open(p, 'rb').read())
    h.update(open(os.path.join(repo, 'Cargo.toml'), 'rb').read())
    return h.hexdigest()[:16]


def _gen_cargo_toml(repo):
    src = open(os.path.join(repo, 'Cargo.toml')).read()
    out = []
    section = None
    skip_section = False
    for line in src.splitlines():
        m = re.match(r'^\[(.+)\]\s*$', line)
        if m:
            section = m.group(1)
            skip_section = section in ('dev-dependencies', 'build-dependencies', 'package.metadata.deb', 'profile.dev')
            if not skip_section:
                out.append(line)
            continue
        if skip_section:
            continue
        if section == 'package' and line.strip().startswith('build'):
            continue
        if section == 'package' and line.strip().startswith('readme'):
            continue
        dm = re.match(r'^([A-Za-z0-9_-]+)\s*=\s*(.*)$', line)
        if dm and dm.group(1) in MODEL_CRATES and section and 'dependencies' in section:
            name = dm.group(1)
            feats = re.search(r'features\s*=\s*(\[[^\]]*\])', dm.group(2))
            extra = ', features = %s' % feats.group(1) if feats else ''
            out.append('%s = { path = "%s"%s }' % (name, os.path.join(MODELS, name), extra))
            continue
        out.append(line)
    out.append('')
    out.append('[workspace]')
    out.append('')
    out.append('[profile.dev]')
    out.append('debug = 0')
    out.append('opt-level = 0')
    return '\n'.join(out) + '\n'


def _add_local_harness(scratch):
    """Scratch copy only: append the single-actor harness module to engine/mod.rs and an early exit to it in main().
    (add-only in engine/mod.rs; in main.rs one line is inserted after the opening brace of `fn main`). If the shape of
    main() is not recognised the harness is simply absent and LOCAL counterexamples cannot be replayed (inconclusive)."""
    em = os.path.join(scratch, 'src', 'engine', 'mod.rs')
    mm = os.path.join(scratch, 'src', 'main.rs')
    if not (os.path.exists(em) and os.path.exists(mm)):
        return False
    main = open(mm).read()
    m = re.search(r'fn main\(\)\s*->\s*Result<\(\)>\s*\{', main)
    if not m:
        return False
    main = main[:m.end()] + '\n    #[cfg(zx)]\n    if std::env::var_os("ZX_LOCAL").is_some() { return engine::zx_local::run(); }\n' + main[m.end():]
    open(mm, 'w').write(main)
    open(em, 'a').write('\n#[cfg(zx)]\n#[path = "%s"]\npub mod zx_local;\n' % os.path.join(VERIF, 'replay', 'local_harness.rs'))
    return True


def build_native(repo='/repo', log=None):
    """Returns (binary path, info dict). Rebuilds when the sources changed."""
    t0 = time.time()
    key = _src_hash(repo)
    os.makedirs(CACHE, exist_ok=True)
    bindir = os.path.join(CACHE, 'bin')
    os.makedirs(bindir, exist_ok=True)
    binpath = os.path.join(bindir, 'zinoma-zx-' + key)
    if os.path.exists(binpath):
        return binpath, {'cached': True, 'key': key, 'build_s': 0.0}
    # one build at a time: the cargo target directory is shared, and the binary must be copied before another tree is built into it
    import fcntl
    lockf = open(os.path.join(CACHE, 'build.lock'), 'w')
    fcntl.flock(lockf, fcntl.LOCK_EX)
    if os.path.exists(binpath):
        lockf.close()
        return binpath, {'cached': True, 'key': key, 'build_s': 0.0}
    scratch_root = os.environ.get('VERIF_SCRATCH', '/var/tmp')
    scratch = tempfile.mkdtemp(prefix='zx-native-', dir=scratch_root)
    try:
        shutil.copytree(os.path.join(repo, 'src'), os.path.join(scratch, 'src'))
        open(os.path.join(scratch, 'Cargo.toml'), 'w').write(_gen_cargo_toml(repo).replace('[dependencies]', '[dependencies]\nzx-rt = { path = "%s" }' % os.path.join(MODELS, 'zx-rt'), 1))
        _add_local_harness(scratch)
        # start from the repository's lock file so that the real crates keep their pinned versions
        shutil.copy(os.path.join(repo, 'Cargo.lock'), os.path.join(scratch, 'Cargo.lock'))
        env = dict(os.environ, CARGO_NET_OFFLINE='true', CARGO_TARGET_DIR=os.path.join(CACHE, 'native-target'), RUSTFLAGS='--cfg zx -Awarnings')
        r = subprocess.run(['cargo', 'build', '--offline', '--bin', 'zinoma'], cwd=scratch, env=env, capture_output=True, text=True)
        if r.returncode != 0:
            raise RuntimeError('native build failed:\n' + r.stderr[-4000:])
        shutil.copy(os.path.join(CACHE, 'native-target', 'debug', 'zinoma'), binpath + '.tmp')
        os.replace(binpath + '.tmp', binpath)
        # keep the most recent binaries; never one that a concurrent check may still be using
        olds = sorted((os.path.getmtime(os.path.join(bindir, f)), f) for f in os.listdir(bindir))
        for mt, f in olds[:-12]:
            if time.time() - mt > 3600:
                os.unlink(os.path.join(bindir, f))
    finally:
        shutil.rmtree(scratch, ignore_errors=True)
        lockf.close()
    return binpath, {'cached': False, 'key': key, 'build_s': round(time.time() - t0, 1)}


def run_native(binpath, project_dir, args, schedule=None, timeout=60, extra_env=None):
    """Run the model-runtime zinoma. schedule: list of text lines or None (free-running).
    Returns dict(rc, log=[lines], stdout, stderr)."""
    logf = tempfile.NamedTemporaryFile(prefix='zxlog-', suffix='.txt', delete=False, dir=os.environ.get('VERIF_SCRATCH', '/var/tmp'))
    logf.close()
    env = dict(os.environ, ZX_LOG=logf.name)
    schedf = None
    if schedule is not None:
        schedf = tempfile.NamedTemporaryFile('wb', prefix='zxsched-', suffix='.txt', delete=False, dir=os.environ.get('VERIF_SCRATCH', '/var/tmp'))
        schedf.write(('\n'.join(schedule) + '\n').encode('utf-8', 'surrogateescape'))
        schedf.close()
        env['ZX_SCHEDULE'] = schedf.name
    if extra_env:
        env.update(extra_env)
    try:
        try:
            pre = ['taskset', '-c', env.pop('ZX_TASKSET')] if env.get('ZX_TASKSET') else []
            r = subprocess.run(pre + ['timeout', '-k', '2', str(timeout), binpath, '-p', project_dir] + list(args), env=env, capture_output=True, text=True)
            rc, out, err = r.returncode, r.stdout, r.stderr
        except Exception as e:   # pragma: no cover
            rc, out, err = -1, '', str(e)
        log = open(logf.name, errors='surrogateescape').read().splitlines()
    finally:
        os.unlink(logf.name)
        if schedf:
            os.unlink(schedf.name)
    return {'rc': rc, 'log': log, 'stdout': out, 'stderr': err}


def build_real(repo='/repo'):
    """The unmodified real binary (real async-std, real /bin/sh), built into the cache target dir."""
    env = dict(os.environ, CARGO_NET_OFFLINE='true', CARGO_TARGET_DIR=os.path.join(CACHE, 'real-target'))
    r = subprocess.run(['cargo', 'build', '--offline', '--bin', 'zinoma'], cwd=repo, env=env, capture_output=True, text=True)
    if r.returncode != 0:
        raise RuntimeError('real build failed:\n' + r.stderr[-3000:])
    return os.path.join(CACHE, 'real-target', 'debug', 'zinoma')
