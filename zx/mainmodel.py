"""Main-task model: `engine::run` (request_target, execute_once / watch, TargetActors::send) summarised
from the source.  `launch_target_actor` is cut at its function boundary (it is interpreted on its own
by ActorModel); the stub names the channels of target X `inbox:X`, `term:X`, `inval:X`."""
import z3

from .actors import actor_id_root, decode_output, ekind, input_messages, mk_target, tid, tname
from .prog import Unsupported
from .summ import LoopCoroutine, StraightCoroutine
from .values import NONE, UNIT, Opaque, REnum, RMap, RSet, RStruct, RTuple, RVec, Ref, Union, err, key_of, ok, some
from .world import ProtoWorld


def output_universe(n):
    """All TargetActorOutputMessage values actors can emit: list of (label, builder(actual))."""
    out = []
    names = [tname(i) for i in range(n)]
    for dest in ['ROOT'] + names:
        dv = actor_id_root() if dest == 'ROOT' else REnum('ActorId', 'Target', {0: tid(dest)})
        if dest == 'ROOT':
            senders = names
            reqs = []
        else:
            senders = [x for x in names if x != dest]
            reqs = ['ROOT'] + [x for x in names if x != dest]
        for (label, mk) in input_messages(dest, senders, reqs):
            out.append((('msg', dest, label), lambda a, dv=dv, mk=mk: REnum('TargetActorOutputMessage', 'MessageActor', {'dest': dv, 'msg': mk(a)})))
    for t in names:
        out.append((('err', t), lambda a, t=t: REnum('TargetActorOutputMessage', 'TargetExecutionError',
                                                       {0: tid(t), 1: Opaque('Error', msg='target failed', site=0, file='')})))
    return out


class MainModel:
    def __init__(self, prog, n, watch, root_syms=None, roots_dup=False, kinds=None, dep_syms=None):
        self.prog = prog
        from .actors import init_types
        init_types(prog)
        self.n = n
        self.watch = watch
        self.names = [tname(i) for i in range(n)]
        self.root_syms = root_syms if root_syms is not None else [z3.Bool('root_%d' % i) for i in range(n)]
        self.roots_dup = roots_dup
        # kinds and (symbolic) dependency lists of the targets: the engine may consult the target map (e.g. to prune or order roots)
        self.kinds = kinds
        self.dep_syms = dep_syms
        self.dup_syms = [z3.Bool('rootdup_%d' % i) for i in range(n)] if roots_dup else []
        self.world = ProtoWorld()
        self.outs = output_universe(n)
        self.sel_w = max(1, (len(self.outs) - 1).bit_length())
        self.ev_sel = z3.BitVec('mev_sel', self.sel_w)
        self.ev_actual = z3.Bool('mev_actual')
        self.out_index = {label: i for i, (label, _) in enumerate(self.outs)}

    def stubs(self):
        def launch(I, fd, args, self_arg, node):
            target = I.deref(args[0])
            name = target.payload[0].fields['metadata'].fields['id'].fields['target_name']
            I.effect('launch', target=name)
            handles = RStruct('TargetActorHandleSet', {
                'termination_sender': Opaque('Sender', chan='term:' + name),
                'target_actor_input_sender': Opaque('Sender', chan='inbox:' + name),
                '_target_invalidated_sender': Opaque('Sender', chan='inval:' + name),
                '_watcher': NONE,
            })
            return ok(RTuple((Opaque('JoinHandle', task=name), handles)))
        return {'target_actor::launch_target_actor': launch}

    def _start(self, I):
        # targets map: kind is irrelevant to the main task (it only forwards the value to launch_target_actor)
        def tgt(i, nm):
            kind = self.kinds[i] if self.kinds else 'aggregate'
            deps = list(zip(self.dep_syms[i], self.names[:i])) if self.dep_syms else []
            return mk_target(kind, nm, deps, input_nonempty=(kind != 'aggregate'))
        tmap = RMap({key_of(tid(nm)): (True, tid(nm), tgt(i, nm)) for i, nm in enumerate(self.names)})
        new_fd = self.prog.find_fn('TargetActors::new')
        wopt = REnum('WatchOption', 'Enabled' if self.watch else 'Disabled')
        ta = I.call_fn(new_fd, [tmap, Opaque('Sender', chan='OUT'), wopt])
        ta_ref = Ref(I.alloc(ta), ())
        roots = [(g, tid(nm)) for g, nm in zip(self.root_syms, self.names)]
        roots += [(g, tid(nm)) for g, nm in zip(self.dup_syms, self.names)]
        run_fd = self.prog.find_fn('engine::run')
        fut = I.call_fn(run_fd, [RVec(roots), wopt, ta_ref, Opaque('Receiver', chan='SIGNAL'), Opaque('Receiver', chan='OUT')]) \
            if not run_fd.is_async else Opaque('Future', kind='call', fd=run_fd,
                                               args=RTuple([RVec(roots), wopt, ta_ref, Opaque('Receiver', chan='SIGNAL'), Opaque('Receiver', chan='OUT')]), self_arg=None)
        return I.await_value(fut, {'_id': -3, 'line': 0, '_file': 'main'})

    def _event_value(self, co, ai, arm):
        if arm['kind'] != 'recv':
            raise Unsupported('main loop select arm %s' % arm['kind'])
        if arm['chan'] == 'SIGNAL':
            return {'value': some(RStruct('TerminationMessage', {})), 'role': 'signal'}
        if arm['chan'] == 'OUT':
            alts = [(self.ev_sel == i, some(mk(self.ev_actual))) for i, (label, mk) in enumerate(self.outs)]
            cons = []
            if len(self.outs) < (1 << self.sel_w):
                cons.append(z3.ULT(self.ev_sel, z3.BitVecVal(len(self.outs), self.sel_w)))
            return {'value': Union(alts), 'role': 'out', 'constraints': cons}
        raise Unsupported('main loop receives on unknown channel %s' % arm['chan'])

    def build(self):
        fname = 'engine::watch' if self.watch else 'engine::execute_once'
        fd = self.prog.find_fn(fname)
        self._check_tail(fname.split('::')[-1])
        self.co = LoopCoroutine(self.prog, self.world, fd, self._start, stubs=self.stubs(), name='main', event_value=self._event_value)
        self.co.build()
        self.arm_roles = {}
        for ai, arm in enumerate(self.co.arms_desc):
            self.arm_roles[self._event_value(self.co, ai, arm)['role']] = ai
        return self

    def _check_tail(self, callee):
        """`engine::run` must return the value of `<callee>(..).await` unchanged (tail position)."""
        run = self.prog.find_fn('engine::run').node

        def tails(e):
            k = e['k']
            if k == 'Block':
                st = e['stmts']
                if not st or st[-1]['k'] != 'ExprStmt' or st[-1]['semi']:
                    return []
                return tails(st[-1]['expr'])
            if k == 'BlockExpr':
                return tails(e['block'])
            if k == 'Match':
                r = []
                for a in e['arms']:
                    r += tails(a['body'])
                return r
            if k == 'If':
                return tails(e['then']) + (tails(e['else']) if e['else'] else [])
            return [e]
        ok_ = False
        for t in tails(run['body']):
            if t['k'] == 'Await' and t['base']['k'] == 'Call' and t['base']['func']['k'] == 'Path' and t['base']['func']['path']['str'].split('::')[-1] == callee:
                ok_ = True
        if not ok_:
            raise Unsupported('engine::run does not return %s(..).await in tail position' % callee)
