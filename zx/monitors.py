"""Ghost monitors over the SYS unrolling (observations only: spawns, results, messages, process states)."""
import z3

from .sysbmc import F, T, zb


def sat_inc(c, cond):
    """2-bit saturating counter increment under cond."""
    return z3.If(z3.And(cond, c != 3), c + 1, c)


class ProtoMonitor:
    """Maintains, per target: number of starts, number of successful results, failed / succeeded flags,
    the last word received from each dependency, and sticky violation flags."""

    def __init__(self, watch):
        self.watch = watch

    def init(self, sysm, S, obs):
        g = {}
        n = sysm.n
        for t in range(n):
            g['nstart.%d' % t] = z3.BitVecVal(0, 2)
            g['nresult.%d' % t] = z3.BitVecVal(0, 2)
            g['succeeded.%d' % t] = F
            g['failed.%d' % t] = F
            g['acked.%d' % t] = F       # emitted an Ok{Build, actual} since its last (re)start
            for d in range(t):
                for kind in ('Build', 'Service'):
                    g['word.%d.%d.%s' % (t, d, kind)] = F
        g['bad_start'] = F          # C01: a process was spawned while some needed dependency was not ready
        g['bad_word'] = F           # C01 (watch clause): spawned while the last word from a dependency was not Ok
        g['bad_decide'] = F         # ... and the decision to start (build future created / service spawned) was taken in such a state
        g['double_svc'] = F         # C11: a service spawned while its previous instance was running
        g['svc_down'] = F           # C11: a build script started while a service it depends on had no running instance
        g['any_failed'] = F
        g['start_after_fail'] = F   # C07: a transitive dependent of a failed target was started
        g['ok_on_fail'] = F         # C07: a target acknowledged (Ok) in the very step its execution failed
        g['kill_noreap'] = F
        g['truth_failed'] = F       # environment truth: some script exited unsuccessfully / could not be spawned
        g['misclassified'] = F      # a script that exited unsuccessfully was treated as Skipped/Completed
        g['nnotify'] = z3.BitVecVal(0, 2)
        if self.watch:
            # C06 (convergence): stale.t = "something t depends on changed since t last started": its own declared inputs
            # (a file-change notification), or a build it depends on (directly or through aggregates) finished a run.
            # Initially true: watch mode first brings every requested target up to date.
            for t in range(n):
                if sysm.kinds[t] != 'aggregate':
                    g['stale.%d' % t] = T
                    g['lastfail.%d' % t] = F     # the most recent execution of t ended in failure
        return g

    def eff_dep(self, sysm, t, d):
        """t depends on d directly or through aggregates only."""
        alts = [sysm.dep[t][d]]
        for m in range(d + 1, t):
            if sysm.kinds[m] == 'aggregate':
                alts.append(z3.And(sysm.dep[t][m], self.eff_dep(sysm, m, d)))
        return z3.Or(alts)

    def ready(self, sysm, S, g, d):
        k = sysm.kinds[d]
        if k == 'build':
            return g['succeeded.%d' % d]
        if k == 'service':
            return g['nstart.%d' % d] != 0      # "has been started" during this invocation
        # aggregate: every dependency ready
        return z3.And([z3.Implies(sysm.dep[d][j], self.ready(sysm, S, g, j)) for j in range(d)] + [T])

    def svc_up(self, sysm, S, d):
        """Every service at or (through aggregates) below d has a running instance."""
        k = sysm.kinds[d]
        if k == 'service':
            return S['proc.%d' % d]
        if k == 'build':
            return T
        return z3.And([z3.Implies(sysm.dep[d][j], self.svc_up(sysm, S, j)) for j in range(d)] + [T])

    def trans(self, sysm):
        """trans[t][d]: d is a transitive dependency of t."""
        n = sysm.n
        tr = [[None] * n for _ in range(n)]
        for t in range(n):
            for d in range(t):
                via = [z3.And(sysm.dep[t][m], tr[m][d]) for m in range(d + 1, t)]
                tr[t][d] = z3.Or([sysm.dep[t][d]] + via)
        return tr

    def step(self, sysm, S, obs, S2, g, k):
        n = sysm.n
        g2 = dict(g)
        tr = self.trans(sysm)
        bad_start = g['bad_start']
        bad_word = g['bad_word']
        bad_decide = g['bad_decide']
        double_svc = g['double_svc']
        svc_down = g['svc_down']
        saf = g['start_after_fail']
        okf = g['ok_on_fail']
        # words received in this step
        word = {}
        for t in range(n):
            for d in range(t):
                for kind in ('Build', 'Service'):
                    w = g['word.%d.%d.%s' % (t, d, kind)]
                    got_ok = obs.get('recv', (t, ('Ok', kind, 't%d' % d)))
                    got_inv = obs.get('recv', (t, ('Invalidated', kind, 't%d' % d)))
                    w2 = z3.If(got_ok, T, z3.If(got_inv, F, w))
                    word[(t, d, kind)] = w2
                    g2['word.%d.%d.%s' % (t, d, kind)] = w2
        for t in range(n):
            sp = obs.get('spawn', t)
            g2['nstart.%d' % t] = sat_inc(g['nstart.%d' % t], sp)
            not_ready = z3.Or([z3.And(sysm.dep[t][d], z3.Not(self.ready(sysm, S, g, d))) for d in range(t)] + [F])
            bad_start = z3.Or(bad_start, z3.And(sp, not_ready))
            wbad = z3.Or([z3.And(sysm.dep[t][d], z3.Not(word[(t, d, kind)])) for d in range(t) for kind in ('Build', 'Service')] + [F])
            bad_word = z3.Or(bad_word, z3.And(sp, wbad))
            decide = obs.get('decide', t) if sysm.kinds[t] == 'build' else sp
            bad_decide = z3.Or(bad_decide, z3.And(decide, wbad))
            if sysm.kinds[t] == 'service':
                double_svc = z3.Or(double_svc, z3.And(sp, S['proc.%d' % t], z3.Not(obs.get('reap', t))))
            if sysm.kinds[t] == 'build':
                # (before any shutdown began: while terminating, services and builds are stopped in no particular order)
                down = z3.Or([z3.And(sysm.dep[t][d], z3.Not(self.svc_up(sysm, S, d))) for d in range(t)] + [F])
                svc_down = z3.Or(svc_down, z3.And(sp, down, z3.ULE(S['main.phase'], 1), z3.Not(S['term.%d' % t])))
            dep_failed = z3.Or([z3.And(tr[t][d], g['failed.%d' % d]) for d in range(t)] + [F])
            saf = z3.Or(saf, z3.And(sp, dep_failed))
            res_ok = z3.Or(obs.get('build_result', (t, 0)), obs.get('build_result', (t, 1)))
            res_err = z3.Or(obs.get('build_result', (t, 3)), obs.get('emit_err', 't%d' % t))
            g2['nresult.%d' % t] = sat_inc(g['nresult.%d' % t], res_ok)
            started_new = z3.Or(sp, obs.get('build_result', (t, 0)))
            # sticky: "has finished its build successfully during this invocation"; the watch-mode clause
            # (latest word received) is the separate bad_word monitor
            g2['succeeded.%d' % t] = z3.Or(g['succeeded.%d' % t], res_ok)
            emits_ok = obs.any('emit', lambda key, t=t: key[0] == t and key[2][0] == 'Ok' and key[2][2] == 't%d' % t)
            okf = z3.Or(okf, z3.And(res_err, emits_ok))
            g2['failed.%d' % t] = z3.Or(g['failed.%d' % t], res_err)
        tf = g['truth_failed']
        mis = g['misclassified']
        orc = getattr(sysm, 'oracles', {}).get(k, {})
        for t in range(n):
            ex = orc.get(('bf%d' % t, 'exit_success'))
            if ex is not None:
                bad_exit = z3.And(obs.get('proc_exit', t), z3.Not(ex))
                tf = z3.Or(tf, bad_exit)
                mis = z3.Or(mis, z3.And(bad_exit, z3.Or(obs.get('build_result', (t, 0)), obs.get('build_result', (t, 1)))))
            tf = z3.Or(tf, obs.get('spawn_failed', t))
        g2['truth_failed'] = tf
        g2['misclassified'] = mis
        g2['bad_start'] = bad_start
        g2['bad_word'] = bad_word
        g2['bad_decide'] = bad_decide
        g2['double_svc'] = double_svc
        g2['svc_down'] = svc_down
        g2['start_after_fail'] = saf
        g2['ok_on_fail'] = okf
        g2['any_failed'] = z3.Or([g2['failed.%d' % t] for t in range(n)])
        g2['nnotify'] = sat_inc(g['nnotify'], obs.any('notify'))
        if self.watch:
            for t in range(n):
                if sysm.kinds[t] == 'aggregate':
                    continue
                changed = [obs.get('notify', t)]
                for d in range(t):
                    if sysm.kinds[d] == 'build':
                        done_d = z3.Or(obs.get('build_result', (d, 0)), obs.get('build_result', (d, 1)))
                        changed.append(z3.And(self.eff_dep(sysm, t, d), done_d))
                g2['stale.%d' % t] = z3.If(obs.get('spawn', t), F, z3.If(z3.Or(changed), T, g['stale.%d' % t]))
                ok_t = z3.Or(obs.get('build_result', (t, 0)), obs.get('build_result', (t, 1)))
                err_t = z3.Or(obs.get('build_result', (t, 3)), obs.get('emit_err', 't%d' % t), obs.get('spawn_failed', t))
                g2['lastfail.%d' % t] = z3.If(err_t, T, z3.If(z3.Or(ok_t, obs.get('spawn', t)), F, g['lastfail.%d' % t]))
        return g2
