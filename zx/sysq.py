"""SYSQ: the SYS unrolling with an explicit relay channel and *blocking* sends, capacities clamped to 1-2.

Used only to search for circular waits between the relay (main task awaiting a send into a full inbox) and actors
(awaiting a send into the full output channel).  The clamp is a stated abstraction: a deadlock found here is a
*candidate*; it is confirmed on the real code with the capacities of the source (scaled project)."""
import z3

from .prog import Unsupported
from .sysbmc import Compiled, F, Obs, Q, System, T, ite_state, zb
from .actors import decode_output


class QSystem(System):
    def __init__(self, prog, kinds, watch, cap_out=1, cap_in=1, pend=6, **kw):
        self.cap_out_clamp = cap_out
        self.cap_in_clamp = cap_in
        self.pend_cap = pend
        super().__init__(prog, kinds, watch, qcap=max(cap_in, 1), **kw)
        # capacities from the source: None = unbounded (never clamped)
        self.inbox_unbounded = []
        for am in self.actors:
            inbox_chan = [c for c, r in am.roles.items() if r == 'inbox'][0]
            self.inbox_unbounded.append(am.world.chan_caps.get(inbox_chan) is None)
        self.q = [Q('q%d' % i, 12 if self.inbox_unbounded[i] else cap_in, self.actors[i].sel_w) for i in range(self.n)]
        self.out = Q('out', cap_out, self.main.sel_w)
        self.pend = [Q('pend%d' % i, pend, self.main.sel_w) for i in range(self.n)]
        self.tw = max(1, (self.n - 1).bit_length())
        self.mw = max(am.sel_w for am in self.actors)
        self.mpend = Q('mpend', 2 * self.n + 2, self.tw + self.mw)
        # does the output receiver die when engine::run returns? (it does when it is passed by value)
        run_fd = prog.find_fn('engine::run')
        self.receiver_by_value = True
        for p in run_fd.node['inputs']:
            if not p['self'] and 'TargetActorOutputMessage' in p['ty'] and 'Receiver' in p['ty']:
                self.receiver_by_value = not p['ty'].strip().startswith('&')

    def closed(self, S):
        """The output channel has no receiver any more: sends fail at once."""
        return z3.UGE(S['main.phase'], 2) if self.receiver_by_value else z3.UGE(S['main.phase'], 4)

    def initial(self):
        self._init_extra = True
        S, obs = super().initial()
        return S, obs

    def _base_state(self, S):
        self.out.init(S)
        self.mpend.init(S)
        for i in range(self.n):
            self.pend[i].init(S)

    # --- emission with blocking -----------------------------------------------------------------
    def _actor_effects(self, S, i, effects, flags, obs, g):
        for (kind, data), fl in zip(effects, flags):
            if kind == 'send' and data['chan'] == 'OUT':
                dec = decode_output(data['msg'])
                if dec[0] == 'err':
                    label = ('err', dec[1])
                    obs.add('emit_err', dec[1], g)
                else:
                    label = ('msg', dec[1], dec[2])
                    obs.add('emit', (i, dec[1], dec[2]), g, fl)
                code = self.main.out_index.get(label)
                if code is None:
                    S = dict(S)
                    S['badmsg'] = T
                    continue
                if data.get('try_'):
                    S = self._emit_try(S, i, code, fl if fl is not None else F, obs, g)
                else:
                    S = self._emit(S, i, code, fl if fl is not None else F)
            else:
                S = System._actor_effects(self, S, i, [(kind, data)], [fl], obs, g)
        return S

    def _emit(self, S, i, code, flag):
        closed = self.closed(S)
        direct = z3.And(S[self.pend[i].name + '.len'] == 0, S['out.len'] != self.out.cap)
        Sa = self.out.push(S, code, flag)
        Sb = self.pend[i].push(S, code, flag)
        res = ite_state(direct, Sa, Sb)
        return ite_state(closed, S, res)

    def _emit_try(self, S, i, code, flag, obs, g):
        """try_send into the output channel: delivered if there is room (and nothing of this actor is queued before it), dropped otherwise."""
        closed = self.closed(S)
        room = z3.And(S[self.pend[i].name + '.len'] == 0, S['out.len'] != self.out.cap)
        obs.add('dropped', i, z3.And(g, z3.Not(room), z3.Not(closed)))
        Sa = self.out.push(S, code, flag)
        res = ite_state(room, Sa, S)
        return ite_state(closed, S, res)

    def _main_effects(self, S, effects, flags, obs, g):
        for (kind, data), fl in zip(effects, flags):
            if kind == 'send' and data['chan'].startswith('inbox:'):
                i = int(data['chan'].split(':')[1][1:])
                label = self._in_label(data['msg'])
                code = self.msg_code[i].get(label)
                if code is None:
                    S = dict(S)
                    S['badmsg'] = T
                    continue
                fl_ = fl if fl is not None else F
                can = z3.And(S['mpend.len'] == 0, S['q%d.len' % i] != self.q[i].cap)
                Sa = self.q[i].push(S, code, fl_)
                Sb = self.mpend.push(S, (i << self.mw) | code, fl_)
                S = ite_state(can, Sa, Sb)
                obs.add('deliver', (i, label), z3.And(g, can))
            else:
                S = System._main_effects(self, S, [(kind, data)], [fl], obs, g)
        return S

    # --- alternatives --------------------------------------------------------------------------------
    def alternatives(self, S, k):
        base = System.alternatives(self, S, k)
        alts = []
        n = self.n
        for (name, en, S2, obs) in base:
            if len(name) > 1 and name[0] in ('inbox', 'term', 'inval', 'bf_start', 'bf_cancel', 'bf_exit'):
                i = name[1]
                en = z3.And(en, S[self.pend[i].name + '.len'] == 0)     # an actor awaiting a send does nothing else
            if name[0] in ('main_signal', 'main_terminate', 'main_exit'):
                en = z3.And(en, S['mpend.len'] == 0)                     # the main task awaiting a send sees nothing else
            alts.append((name, en, S2, obs))
        closed = self.closed(S)
        for i in range(n):
            obs = Obs(n)
            (code, flag) = self.pend[i].head(S)
            S1 = self.pend[i].pop(S)
            Sp = self._push_sym(S1, self.out, code, flag, closed)
            en = z3.And(S[self.pend[i].name + '.len'] != 0, z3.Or(closed, S['out.len'] != self.out.cap))
            alts.append((('flush', i), en, Sp, obs))
        # relay: the main task takes one message from the output channel
        obs = Obs(n)
        (code, flag) = self.out.head(S)
        S1 = self.out.pop(S)
        out = S1
        for label, idx in self.main.out_index.items():
            g = code == idx
            Sx = System._relay(self, S1, label, flag, obs, g)
            out = ite_state(g, Sx, out)
        en = z3.And(S['main.phase'] == 0, S['mpend.len'] == 0, S['out.len'] != 0)
        alts.append((('relay',), en, out, obs))
        # main completes a pending send into an inbox
        obs = Obs(n)
        (mc, mf) = self.mpend.head(S)
        S1 = self.mpend.pop(S)
        out = S1
        room = F
        for i in range(n):
            gi = z3.Extract(self.tw + self.mw - 1, self.mw, mc) == i
            code_i = z3.Extract(self.actors[i].sel_w - 1, 0, mc)
            Sx = self._push_sym(S1, self.q[i], code_i, mf, F)
            out = ite_state(gi, Sx, out)
            room = z3.Or(room, z3.And(gi, S['q%d.len' % i] != self.q[i].cap))
        alts.append((('main_flush',), z3.And(S['mpend.len'] != 0, room), out, obs))
        return alts

    def _push_sym(self, S, q, code, flag, discard):
        S2 = dict(S)
        ln = S[q.name + '.len']
        for j in range(q.cap):
            here = z3.And(ln == j, z3.Not(discard))
            S2['%s.c%d' % (q.name, j)] = z3.If(here, code, S['%s.c%d' % (q.name, j)])
            S2['%s.f%d' % (q.name, j)] = z3.If(here, zb(flag), S['%s.f%d' % (q.name, j)])
        S2[q.name + '.len'] = z3.If(z3.Or(discard, ln == q.cap), ln, ln + 1)
        return S2

    def _relay(self, S, label, flag, obs, g):
        raise Unsupported('QSystem relays through the explicit channel')
