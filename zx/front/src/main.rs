// zxfront: parse Rust source files with syn and emit a JSON AST for the ZX symbolic executor.
// usage: zxfront <file.rs>...   -> one JSON object {"files": {path: {"items": [...]}}} on stdout
// Every node: {"k": kind, "line": n, ...}. Anything not understood: {"k":"Unsupported","what":..,"line":..}.
use proc_macro2::{Span, TokenStream, TokenTree};
use quote::ToTokens;
use syn::parse::{Parse, ParseStream, Parser};
use syn::punctuated::Punctuated;
use syn::spanned::Spanned;

#[derive(Clone)]
enum J {
    Null,
    B(bool),
    N(i64),
    S(String),
    A(Vec<J>),
    O(Vec<(String, J)>),
}

fn esc(s: &str, out: &mut String) {
    out.push('"');
    for c in s.chars() {
        match c {
            '"' => out.push_str("\\\""),
            '\\' => out.push_str("\\\\"),
            '\n' => out.push_str("\\n"),
            '\r' => out.push_str("\\r"),
            '\t' => out.push_str("\\t"),
            c if (c as u32) < 0x20 => out.push_str(&format!("\\u{:04x}", c as u32)),
            c => out.push(c),
        }
    }
    out.push('"');
}

impl J {
    fn write(&self, out: &mut String) {
        match self {
            J::Null => out.push_str("null"),
            J::B(b) => out.push_str(if *b { "true" } else { "false" }),
            J::N(n) => out.push_str(&n.to_string()),
            J::S(s) => esc(s, out),
            J::A(v) => {
                out.push('[');
                for (i, x) in v.iter().enumerate() {
                    if i > 0 {
                        out.push(',');
                    }
                    x.write(out);
                }
                out.push(']');
            }
            J::O(v) => {
                out.push('{');
                for (i, (k, x)) in v.iter().enumerate() {
                    if i > 0 {
                        out.push(',');
                    }
                    esc(k, out);
                    out.push(':');
                    x.write(out);
                }
                out.push('}');
            }
        }
    }
}

fn line(sp: Span) -> J {
    J::N(sp.start().line as i64)
}

fn node(kind: &str, sp: Span, mut fields: Vec<(&str, J)>) -> J {
    let mut v = vec![("k".to_string(), J::S(kind.to_string())), ("line".to_string(), line(sp))];
    for (k, x) in fields.drain(..) {
        v.push((k.to_string(), x));
    }
    J::O(v)
}

fn unsupported(what: &str, sp: Span, toks: String) -> J {
    node("Unsupported", sp, vec![("what", J::S(what.to_string())), ("src", J::S(toks))])
}

fn s(x: impl ToString) -> J {
    J::S(x.to_string())
}

fn toks(x: &impl ToTokens) -> String {
    x.to_token_stream().to_string()
}

fn opt<T>(x: &Option<T>, f: impl Fn(&T) -> J) -> J {
    match x {
        Some(v) => f(v),
        None => J::Null,
    }
}

fn path_j(p: &syn::Path) -> J {
    // segments: [{"id":..,"args":[type strings]}]
    let segs = p
        .segments
        .iter()
        .map(|sg| {
            let args = match &sg.arguments {
                syn::PathArguments::None => vec![],
                syn::PathArguments::AngleBracketed(a) => a.args.iter().map(|g| J::S(toks(g))).collect(),
                syn::PathArguments::Parenthesized(a) => vec![J::S(toks(a))],
            };
            J::O(vec![("id".to_string(), s(&sg.ident)), ("args".to_string(), J::A(args))])
        })
        .collect();
    J::O(vec![
        ("segs".to_string(), J::A(segs)),
        ("str".to_string(), J::S(p.segments.iter().map(|x| x.ident.to_string()).collect::<Vec<_>>().join("::"))),
    ])
}

fn member_j(m: &syn::Member) -> J {
    match m {
        syn::Member::Named(i) => s(i),
        syn::Member::Unnamed(i) => J::N(i.index as i64),
    }
}

fn lit_j(l: &syn::Lit) -> J {
    let sp = l.span();
    match l {
        syn::Lit::Str(x) => node("LitStr", sp, vec![("v", J::S(x.value()))]),
        syn::Lit::Int(x) => node("LitInt", sp, vec![("v", J::S(x.base10_digits().to_string())), ("suffix", J::S(x.suffix().to_string()))]),
        syn::Lit::Bool(x) => node("LitBool", sp, vec![("v", J::B(x.value))]),
        syn::Lit::Char(x) => node("LitChar", sp, vec![("v", J::S(x.value().to_string()))]),
        syn::Lit::Byte(x) => node("LitInt", sp, vec![("v", J::S(x.value().to_string())), ("suffix", J::S("u8".into()))]),
        syn::Lit::ByteStr(x) => node("LitByteStr", sp, vec![("v", J::A(x.value().iter().map(|b| J::N(*b as i64)).collect()))]),
        other => unsupported("lit", sp, toks(other)),
    }
}

fn block_j(b: &syn::Block) -> J {
    node("Block", b.span(), vec![("stmts", J::A(b.stmts.iter().map(stmt_j).collect()))])
}

fn stmt_j(st: &syn::Stmt) -> J {
    match st {
        syn::Stmt::Local(l) => {
            let (init, diverge) = match &l.init {
                Some(i) => (expr_j(&i.expr), opt(&i.diverge, |(_, e)| expr_j(e))),
                None => (J::Null, J::Null),
            };
            node("Let", l.span(), vec![("pat", pat_j(&l.pat)), ("init", init), ("diverge", diverge)])
        }
        syn::Stmt::Item(i) => node("ItemStmt", i.span(), vec![("item", item_j(i))]),
        syn::Stmt::Expr(e, semi) => node("ExprStmt", e.span(), vec![("expr", expr_j(e)), ("semi", J::B(semi.is_some()))]),
        syn::Stmt::Macro(m) => node("ExprStmt", m.span(), vec![("expr", macro_j(&m.mac)), ("semi", J::B(m.semi_token.is_some()))]),
    }
}

struct SelArm {
    pat: syn::Pat,
    fut: syn::Expr,
    body: syn::Expr,
}
impl Parse for SelArm {
    fn parse(input: ParseStream) -> syn::Result<Self> {
        let pat = syn::Pat::parse_single(input)?;
        input.parse::<syn::Token![=]>()?;
        let fut: syn::Expr = input.parse()?;
        input.parse::<syn::Token![=>]>()?;
        let body: syn::Expr = input.parse()?;
        let _ = input.parse::<Option<syn::Token![,]>>()?;
        Ok(SelArm { pat, fut, body })
    }
}
struct SelArms(Vec<SelArm>);
impl Parse for SelArms {
    fn parse(input: ParseStream) -> syn::Result<Self> {
        let mut v = vec![];
        while !input.is_empty() {
            v.push(input.parse()?);
        }
        Ok(SelArms(v))
    }
}

struct MatchesArgs {
    expr: syn::Expr,
    pat: syn::Pat,
    guard: Option<syn::Expr>,
}
impl Parse for MatchesArgs {
    fn parse(input: ParseStream) -> syn::Result<Self> {
        let expr: syn::Expr = input.parse()?;
        input.parse::<syn::Token![,]>()?;
        let pat = syn::Pat::parse_multi_with_leading_vert(input)?;
        let guard = if input.peek(syn::Token![if]) {
            input.parse::<syn::Token![if]>()?;
            Some(input.parse()?)
        } else {
            None
        };
        let _ = input.parse::<Option<syn::Token![,]>>()?;
        Ok(MatchesArgs { expr, pat, guard })
    }
}

struct LazyStatic {
    name: syn::Ident,
    ty: syn::Type,
    expr: syn::Expr,
}
struct LazyStatics(Vec<LazyStatic>);
impl Parse for LazyStatics {
    fn parse(input: ParseStream) -> syn::Result<Self> {
        let mut v = vec![];
        while !input.is_empty() {
            let _ = input.call(syn::Attribute::parse_outer)?;
            let _: syn::Visibility = input.parse()?;
            input.parse::<syn::Token![static]>()?;
            input.parse::<syn::Token![ref]>()?;
            let name: syn::Ident = input.parse()?;
            input.parse::<syn::Token![:]>()?;
            let ty: syn::Type = input.parse()?;
            input.parse::<syn::Token![=]>()?;
            let expr: syn::Expr = input.parse()?;
            input.parse::<syn::Token![;]>()?;
            v.push(LazyStatic { name, ty, expr });
        }
        Ok(LazyStatics(v))
    }
}

fn macro_j(m: &syn::Macro) -> J {
    let name = m.path.segments.iter().map(|x| x.ident.to_string()).collect::<Vec<_>>().join("::");
    let last = m.path.segments.last().map(|x| x.ident.to_string()).unwrap_or_default();
    let sp = m.span();
    let raw = m.tokens.to_string();
    if last == "select" || last == "select_biased" {
        return match syn::parse2::<SelArms>(m.tokens.clone()) {
            Ok(arms) => node(
                "Select",
                sp,
                vec![
                    ("biased", J::B(last == "select_biased")),
                    (
                        "arms",
                        J::A(arms
                            .0
                            .iter()
                            .map(|a| {
                                node("SelectArm", a.pat.span(), vec![("pat", pat_j(&a.pat)), ("fut", expr_j(&a.fut)), ("body", expr_j(&a.body))])
                            })
                            .collect()),
                    ),
                ],
            ),
            Err(_) => unsupported("select-arms", sp, raw),
        };
    }
    if last == "matches" {
        return match syn::parse2::<MatchesArgs>(m.tokens.clone()) {
            Ok(a) => node("Matches", sp, vec![("expr", expr_j(&a.expr)), ("pat", pat_j(&a.pat)), ("guard", opt(&a.guard, expr_j))]),
            Err(_) => unsupported("matches-args", sp, raw),
        };
    }
    if last == "lazy_static" {
        return match syn::parse2::<LazyStatics>(m.tokens.clone()) {
            Ok(ls) => node(
                "LazyStatic",
                sp,
                vec![(
                    "statics",
                    J::A(ls.0.iter().map(|l| J::O(vec![("name".to_string(), s(&l.name)), ("ty".to_string(), J::S(toks(&l.ty))), ("expr".to_string(), expr_j(&l.expr))])).collect()),
                )],
            ),
            Err(_) => unsupported("lazy_static", sp, raw),
        };
    }
    if last == "vec" {
        // vec![a, b] or vec![x; n]
        let tv: Vec<TokenTree> = m.tokens.clone().into_iter().collect();
        let has_semi = tv.iter().any(|t| matches!(t, TokenTree::Punct(p) if p.as_char() == ';'));
        if has_semi {
            struct Rep(syn::Expr, syn::Expr);
            impl Parse for Rep {
                fn parse(input: ParseStream) -> syn::Result<Self> {
                    let a: syn::Expr = input.parse()?;
                    input.parse::<syn::Token![;]>()?;
                    let b: syn::Expr = input.parse()?;
                    Ok(Rep(a, b))
                }
            }
            return match syn::parse2::<Rep>(m.tokens.clone()) {
                Ok(r) => node("MacroCall", sp, vec![("name", J::S("vec_repeat".into())), ("args", J::A(vec![expr_j(&r.0), expr_j(&r.1)])), ("raw", J::S(raw))]),
                Err(_) => unsupported("vec-repeat", sp, raw),
            };
        }
    }
    // generic: comma separated expressions
    let parser = Punctuated::<syn::Expr, syn::Token![,]>::parse_terminated;
    match parser.parse2(m.tokens.clone()) {
        Ok(args) => node("MacroCall", sp, vec![("name", J::S(name)), ("args", J::A(args.iter().map(expr_j).collect())), ("raw", J::S(raw))]),
        Err(_) => node("MacroCall", sp, vec![("name", J::S(name)), ("args", J::Null), ("raw", J::S(raw))]),
    }
}

fn expr_j(e: &syn::Expr) -> J {
    let sp = e.span();
    use syn::Expr::*;
    match e {
        Array(x) => node("Array", sp, vec![("elems", J::A(x.elems.iter().map(expr_j).collect()))]),
        Assign(x) => node("Assign", sp, vec![("left", expr_j(&x.left)), ("right", expr_j(&x.right))]),
        Async(x) => node("Async", sp, vec![("move", J::B(x.capture.is_some())), ("block", block_j(&x.block))]),
        Await(x) => node("Await", sp, vec![("base", expr_j(&x.base))]),
        Binary(x) => node("Binary", sp, vec![("op", J::S(toks(&x.op))), ("left", expr_j(&x.left)), ("right", expr_j(&x.right))]),
        Block(x) => node("BlockExpr", sp, vec![("block", block_j(&x.block)), ("label", opt(&x.label, |l| s(&l.name.ident)))]),
        Break(x) => node("Break", sp, vec![("label", opt(&x.label, |l| s(&l.ident))), ("expr", opt(&x.expr, |e| expr_j(e)))]),
        Call(x) => node("Call", sp, vec![("func", expr_j(&x.func)), ("args", J::A(x.args.iter().map(expr_j).collect()))]),
        Cast(x) => node("Cast", sp, vec![("expr", expr_j(&x.expr)), ("ty", J::S(toks(&x.ty)))]),
        Closure(x) => node(
            "Closure",
            sp,
            vec![
                ("inputs", J::A(x.inputs.iter().map(pat_j).collect())),
                ("body", expr_j(&x.body)),
                ("move", J::B(x.capture.is_some())),
                ("async", J::B(x.asyncness.is_some())),
            ],
        ),
        Continue(x) => node("Continue", sp, vec![("label", opt(&x.label, |l| s(&l.ident)))]),
        Field(x) => node("Field", sp, vec![("base", expr_j(&x.base)), ("member", member_j(&x.member))]),
        ForLoop(x) => node(
            "For",
            sp,
            vec![("pat", pat_j(&x.pat)), ("expr", expr_j(&x.expr)), ("body", block_j(&x.body)), ("label", opt(&x.label, |l| s(&l.name.ident)))],
        ),
        Group(x) => expr_j(&x.expr),
        If(x) => node(
            "If",
            sp,
            vec![("cond", expr_j(&x.cond)), ("then", block_j(&x.then_branch)), ("else", opt(&x.else_branch, |(_, e)| expr_j(e)))],
        ),
        Index(x) => node("Index", sp, vec![("expr", expr_j(&x.expr)), ("index", expr_j(&x.index))]),
        Let(x) => node("LetCond", sp, vec![("pat", pat_j(&x.pat)), ("expr", expr_j(&x.expr))]),
        Lit(x) => lit_j(&x.lit),
        Loop(x) => node("Loop", sp, vec![("body", block_j(&x.body)), ("label", opt(&x.label, |l| s(&l.name.ident)))]),
        Macro(x) => macro_j(&x.mac),
        Match(x) => node(
            "Match",
            sp,
            vec![
                ("expr", expr_j(&x.expr)),
                (
                    "arms",
                    J::A(x
                        .arms
                        .iter()
                        .map(|a| node("Arm", a.span(), vec![("pat", pat_j(&a.pat)), ("guard", opt(&a.guard, |(_, g)| expr_j(g))), ("body", expr_j(&a.body))]))
                        .collect()),
                ),
            ],
        ),
        MethodCall(x) => node(
            "MethodCall",
            sp,
            vec![
                ("recv", expr_j(&x.receiver)),
                ("method", s(&x.method)),
                ("turbofish", opt(&x.turbofish, |t| J::A(t.args.iter().map(|g| J::S(toks(g))).collect()))),
                ("args", J::A(x.args.iter().map(expr_j).collect())),
            ],
        ),
        Paren(x) => expr_j(&x.expr),
        Path(x) => node("Path", sp, vec![("path", path_j(&x.path))]),
        Range(x) => node(
            "Range",
            sp,
            vec![
                ("start", opt(&x.start, |e| expr_j(e))),
                ("end", opt(&x.end, |e| expr_j(e))),
                ("closed", J::B(matches!(x.limits, syn::RangeLimits::Closed(_)))),
            ],
        ),
        Reference(x) => node("Ref", sp, vec![("mut", J::B(x.mutability.is_some())), ("expr", expr_j(&x.expr))]),
        Repeat(x) => node("Repeat", sp, vec![("expr", expr_j(&x.expr)), ("len", expr_j(&x.len))]),
        Return(x) => node("Return", sp, vec![("expr", opt(&x.expr, |e| expr_j(e)))]),
        Struct(x) => node(
            "StructLit",
            sp,
            vec![
                ("path", path_j(&x.path)),
                ("fields", J::A(x.fields.iter().map(|f| J::O(vec![("member".to_string(), member_j(&f.member)), ("expr".to_string(), expr_j(&f.expr))])).collect())),
                ("rest", opt(&x.rest, |e| expr_j(e))),
            ],
        ),
        Try(x) => node("Try", sp, vec![("expr", expr_j(&x.expr))]),
        Tuple(x) => node("Tuple", sp, vec![("elems", J::A(x.elems.iter().map(expr_j).collect()))]),
        Unary(x) => node("Unary", sp, vec![("op", J::S(toks(&x.op))), ("expr", expr_j(&x.expr))]),
        While(x) => node("While", sp, vec![("cond", expr_j(&x.cond)), ("body", block_j(&x.body)), ("label", opt(&x.label, |l| s(&l.name.ident)))]),
        Unsafe(x) => node("BlockExpr", sp, vec![("block", block_j(&x.block)), ("label", J::Null)]),
        other => unsupported("expr", sp, toks(other)),
    }
}

fn pat_j(p: &syn::Pat) -> J {
    let sp = p.span();
    use syn::Pat::*;
    match p {
        Ident(x) => node(
            "PIdent",
            sp,
            vec![("name", s(&x.ident)), ("by_ref", J::B(x.by_ref.is_some())), ("mut", J::B(x.mutability.is_some())), ("sub", opt(&x.subpat, |(_, p)| pat_j(p)))],
        ),
        Lit(x) => node("PLit", sp, vec![("lit", lit_j(&x.lit))]),
        Or(x) => node("POr", sp, vec![("cases", J::A(x.cases.iter().map(pat_j).collect()))]),
        Paren(x) => pat_j(&x.pat),
        Path(x) => node("PPath", sp, vec![("path", path_j(&x.path))]),
        Reference(x) => node("PRef", sp, vec![("pat", pat_j(&x.pat))]),
        Rest(_) => node("PRest", sp, vec![]),
        Slice(x) => node("PSlice", sp, vec![("elems", J::A(x.elems.iter().map(pat_j).collect()))]),
        Struct(x) => node(
            "PStruct",
            sp,
            vec![
                ("path", path_j(&x.path)),
                ("fields", J::A(x.fields.iter().map(|f| J::O(vec![("member".to_string(), member_j(&f.member)), ("pat".to_string(), pat_j(&f.pat))])).collect())),
                ("rest", J::B(x.rest.is_some())),
            ],
        ),
        Tuple(x) => node("PTuple", sp, vec![("elems", J::A(x.elems.iter().map(pat_j).collect()))]),
        TupleStruct(x) => node("PTupleStruct", sp, vec![("path", path_j(&x.path)), ("elems", J::A(x.elems.iter().map(pat_j).collect()))]),
        Type(x) => node("PType", sp, vec![("pat", pat_j(&x.pat)), ("ty", J::S(toks(&x.ty)))]),
        Wild(_) => node("PWild", sp, vec![]),
        other => unsupported("pat", sp, toks(other)),
    }
}

fn attrs_j(attrs: &[syn::Attribute]) -> J {
    J::A(attrs.iter().map(|a| J::S(toks(&a.meta))).collect())
}

fn fn_j(sig: &syn::Signature, block: Option<&syn::Block>, attrs: &[syn::Attribute], sp: Span) -> J {
    let inputs = sig
        .inputs
        .iter()
        .map(|a| match a {
            syn::FnArg::Receiver(r) => J::O(vec![
                ("self".to_string(), J::B(true)),
                ("ref".to_string(), J::B(r.reference.is_some())),
                ("mut".to_string(), J::B(r.mutability.is_some())),
            ]),
            syn::FnArg::Typed(t) => J::O(vec![("self".to_string(), J::B(false)), ("pat".to_string(), pat_j(&t.pat)), ("ty".to_string(), J::S(toks(&t.ty)))]),
        })
        .collect();
    let ret = match &sig.output {
        syn::ReturnType::Default => J::Null,
        syn::ReturnType::Type(_, t) => J::S(toks(t)),
    };
    node(
        "Fn",
        sp,
        vec![
            ("name", s(&sig.ident)),
            ("async", J::B(sig.asyncness.is_some())),
            ("generics", J::S(toks(&sig.generics))),
            ("inputs", J::A(inputs)),
            ("ret", ret),
            ("body", opt(&block, |b| block_j(b))),
            ("attrs", attrs_j(attrs)),
        ],
    )
}

fn fields_j(f: &syn::Fields) -> J {
    match f {
        syn::Fields::Named(n) => J::A(n.named.iter().map(|x| J::O(vec![("name".to_string(), s(x.ident.as_ref().unwrap())), ("ty".to_string(), J::S(toks(&x.ty)))])).collect()),
        syn::Fields::Unnamed(n) => J::A(n.unnamed.iter().enumerate().map(|(i, x)| J::O(vec![("name".to_string(), J::N(i as i64)), ("ty".to_string(), J::S(toks(&x.ty)))])).collect()),
        syn::Fields::Unit => J::A(vec![]),
    }
}

fn fields_kind(f: &syn::Fields) -> J {
    J::S(match f {
        syn::Fields::Named(_) => "named",
        syn::Fields::Unnamed(_) => "tuple",
        syn::Fields::Unit => "unit",
    }
    .to_string())
}

fn item_j(i: &syn::Item) -> J {
    let sp = i.span();
    use syn::Item::*;
    match i {
        Fn(x) => fn_j(&x.sig, Some(&x.block), &x.attrs, sp),
        Impl(x) => node(
            "Impl",
            sp,
            vec![
                ("self_ty", J::S(toks(&x.self_ty))),
                ("trait", opt(&x.trait_, |(_, p, _)| path_j(p))),
                ("generics", J::S(toks(&x.generics))),
                (
                    "items",
                    J::A(x
                        .items
                        .iter()
                        .map(|it| match it {
                            syn::ImplItem::Fn(f) => fn_j(&f.sig, Some(&f.block), &f.attrs, f.span()),
                            syn::ImplItem::Type(t) => node("ImplType", t.span(), vec![("name", s(&t.ident)), ("ty", J::S(toks(&t.ty)))]),
                            syn::ImplItem::Const(c) => node("Const", c.span(), vec![("name", s(&c.ident)), ("ty", J::S(toks(&c.ty))), ("expr", expr_j(&c.expr))]),
                            other => unsupported("impl-item", other.span(), toks(other)),
                        })
                        .collect()),
                ),
            ],
        ),
        Struct(x) => node("Struct", sp, vec![("name", s(&x.ident)), ("fields", fields_j(&x.fields)), ("shape", fields_kind(&x.fields)), ("attrs", attrs_j(&x.attrs))]),
        Enum(x) => node(
            "Enum",
            sp,
            vec![
                ("name", s(&x.ident)),
                ("attrs", attrs_j(&x.attrs)),
                (
                    "variants",
                    J::A(x
                        .variants
                        .iter()
                        .map(|v| J::O(vec![("name".to_string(), s(&v.ident)), ("fields".to_string(), fields_j(&v.fields)), ("shape".to_string(), fields_kind(&v.fields))]))
                        .collect()),
                ),
            ],
        ),
        Mod(x) => node(
            "Mod",
            sp,
            vec![
                ("name", s(&x.ident)),
                ("attrs", attrs_j(&x.attrs)),
                ("items", opt(&x.content, |(_, items)| J::A(items.iter().map(item_j).collect()))),
            ],
        ),
        Use(x) => node("Use", sp, vec![("tree", J::S(toks(&x.tree)))]),
        Const(x) => node("Const", sp, vec![("name", s(&x.ident)), ("ty", J::S(toks(&x.ty))), ("expr", expr_j(&x.expr))]),
        Static(x) => node("Const", sp, vec![("name", s(&x.ident)), ("ty", J::S(toks(&x.ty))), ("expr", expr_j(&x.expr))]),
        Type(x) => node("TypeAlias", sp, vec![("name", s(&x.ident)), ("ty", J::S(toks(&x.ty)))]),
        Macro(x) => node("ItemMacro", sp, vec![("mac", macro_j(&x.mac))]),
        Trait(x) => node("Trait", sp, vec![("name", s(&x.ident))]),
        other => unsupported("item", sp, toks(other)),
    }
}

fn main() {
    let mut files = vec![];
    for p in std::env::args().skip(1) {
        let src = std::fs::read_to_string(&p).unwrap_or_else(|e| panic!("read {}: {}", p, e));
        let j = match syn::parse_file(&src) {
            Ok(f) => J::O(vec![("items".to_string(), J::A(f.items.iter().map(item_j).collect())), ("attrs".to_string(), attrs_j(&f.attrs))]),
            Err(e) => J::O(vec![("error".to_string(), J::S(e.to_string()))]),
        };
        files.push((p, j));
    }
    let _ = TokenStream::new();
    let mut out = String::new();
    J::O(vec![("files".to_string(), J::O(files))]).write(&mut out);
    println!("{}", out);
}
