"""Turn a SYS counterexample / witness (z3 model of an unrolling) into a concrete project + CLI + schedule,
run it on the real zinoma code over the model runtime, and summarise what was observed."""
import json
import os
import re
import shutil
import tempfile

import z3

from .native import build_native, run_native

OUT = 't0.1'      # second channel created by the main task (see main.rs: termination channel first, then output)
SIG = 't0.0'


def model_case(sysm, u, model):
    """Decode graph, roots, schedule, per-step oracle values from a z3 model."""
    ev = lambda t: z3.is_true(model.eval(t, model_completion=True))
    n = sysm.n
    deps = {i: [j for j in range(i) if ev(sysm.dep[i][j])] for i in range(n)}
    roots = [i for i in range(n) if ev(sysm.root[i])]
    dups = [i for i, s in enumerate(getattr(sysm.main, 'dup_syms', [])) if ev(s)]
    sched = u.decode(model)
    steps = []
    for k, name in enumerate(sched):
        orc = {}
        for (who, nm), v in u.oracles.get(k, {}).items():
            if z3.is_bool(v):
                orc['%s.%s' % (who, nm)] = ev(v)
        launches = sorted(key for key, (g, f) in u.obs[k + 1].ev.get('launch', {}).items() if ev(g))     # dependencies are requested in declaration order
        spawns = [key for key, (g, f) in u.obs[k + 1].ev.get('spawn', {}).items() if ev(g)]
        sfails = [key for key, (g, f) in u.obs[k + 1].ev.get('spawn_failed', {}).items() if ev(g)]
        steps.append({'alt': list(name), 'oracles': {a: b for a, b in orc.items() if _relevant(name, a)}, 'launch': launches, 'spawn': spawns,
                      'spawn_failed': sfails})
    # engine::run requests the roots in command-line order; the CLI args are roots then duplicated roots
    launch0 = []
    for i in roots + dups:
        if i not in launch0:
            launch0.append(i)
    hang = [i for i in range(n) if ev(z3.Bool('hang_%d' % i))]
    # targets whose up-to-date check answers "unchanged" (the build is skipped): realised natively by a recorded state
    skip = sorted({st['alt'][1] for st in steps if st['alt'][0] == 'bf_start' and any('env_unchanged' in o and v for o, v in st['oracles'].items())})
    final_phase = model.eval(u.states[-1]['main.phase'], model_completion=True).as_long()
    return {'final_phase': final_phase, 'final_err': ev(u.states[-1]['main.err']),'kinds': list(sysm.kinds), 'watch': sysm.watch, 'deps': deps, 'roots': roots, 'dup_roots': dups, 'launch0': launch0,
            'steps': steps, 'hang': hang, 'skip': skip}


def _relevant(name, oracle):
    if name[0] in ('stutter',):
        return False
    if len(name) > 1:
        i = name[1]
        return oracle.startswith('a%d.' % i) or oracle.startswith('bf%d.' % i)
    return False


def write_project(case, d):
    """zinoma.yml for the case; returns CLI target args."""
    lines = ['targets:']
    for i, kind in enumerate(case['kinds']):
        lines.append('  t%d:' % i)
        deps = case['deps'].get(i) or case['deps'].get(str(i)) or []
        if deps:
            lines.append('    dependencies: [%s]' % ', '.join('t%d' % j for j in deps))
        elif kind == 'aggregate':
            lines.append('    dependencies: []')
        if kind == 'build':
            lines.append('    build: echo t%d' % i)
        elif kind == 'service':
            lines.append('    service: echo t%d' % i)
        if case['watch'] and kind != 'aggregate':
            os.makedirs(os.path.join(d, 'src_t%d' % i), exist_ok=True)
            open(os.path.join(d, 'src_t%d' % i, 'in.txt'), 'w').write('v0\n')
            lines.append('    input:')
            lines.append('      - paths: [src_t%d]' % i)
            lines.append('      - cmd_stdout: date +%s%N')     # never "unchanged": the skip decision is an oracle in the protocol model
        elif kind == 'build' and i in case.get('skip', []):
            # one-shot run in which this build is skipped: a declared input that a warm-up invocation records (see replay_case)
            open(os.path.join(d, 'in_t%d.txt' % i), 'w').write('v0\n')
            lines.append('    input:')
            lines.append('      - paths: [in_t%d.txt]' % i)
    open(os.path.join(d, 'zinoma.yml'), 'w').write('\n'.join(lines) + '\n')
    args = ['t%d' % i for i in case['roots']] + ['t%d' % i for i in case.get('dup_roots', [])]
    if case['watch']:
        args = ['--watch'] + args
    return args


def schedule_for(case, project_dir):
    """Native schedule (text lines) following the model's steps."""
    order = list(case['launch0'])
    lines = ['poll 0 %s all' % OUT]
    header = []
    watcher_of = {}
    nwatch = 0
    edits = {}
    attempts = {}

    def task(i):
        return 2 + order.index(i)

    def chans(i):
        k = order.index(i)
        base = 2 + 3 * k
        return {'term': 't0.%d' % base, 'inval': 't0.%d' % (base + 1), 'inbox': 't0.%d' % (base + 2)}
    if case['watch']:
        for i in order:
            if case['kinds'][i] != 'aggregate':
                watcher_of[i] = nwatch
                nwatch += 1
    relay = 'poll 0 %s all' % OUT
    for st in case['steps']:
        alt = st['alt']
        a = alt[0]
        if a == 'stutter':
            continue
        for i in st['launch']:
            if i not in order:
                order.append(i)
                if case['watch'] and case['kinds'][i] != 'aggregate':
                    watcher_of[i] = nwatch
                    nwatch += 1
        if a in ('inbox', 'term', 'inval'):
            i = alt[1]
            if i not in order:
                lines.append('# target t%d not launched in the model at this point' % i)
                continue
            lines.append('poll %d %s 1' % (task(i), chans(i)[a]))
            lines.append(relay)
        elif a == 'notify':
            i = alt[1]
            if i in watcher_of:
                edits[i] = edits.get(i, 0) + 1
                path = os.path.join(project_dir, 'src_t%d' % i, 'in.txt')
                lines.append('write %s v%d' % (path, edits[i]))
                lines.append('notify %d ok %s' % (watcher_of[i], path))
        elif a == 'bf_start':
            i = alt[1]
            lines.append('poll %d -' % task(i))
            lines.append(relay)
        elif a == 'bf_cancel':
            i = alt[1]
            lines.append('poll %d t%d.* 1' % (task(i), task(i)))
            lines.append(relay)
        elif a == 'bf_exit':
            i = alt[1]
            okv = [v for o, v in st['oracles'].items() if 'exit_success' in o]
            sig = any(v for o, v in st['oracles'].items() if 'killed_by_signal' in o)
            code = 0 if (not okv or okv[0]) else (1009 if sig else 1)
            lines.append('exitscript %d echo t%d' % (code, i))
            lines.append('poll %d -' % task(i))
            lines.append(relay)
        elif a == 'signal':
            lines.append('signal')
            lines.append('poll 1 -')
        elif a == 'main_signal':
            lines.append('poll 0 %s 1' % SIG)
        elif a in ('main_terminate', 'main_exit'):
            lines.append('poll 0 -')
        else:
            lines.append('# unknown alternative %r' % (alt,))
        for t in st['spawn']:
            attempts[t] = attempts.get(t, 0) + 1
        for t in st.get('spawn_failed', []):
            header.append('failspawn %d echo t%d' % (attempts.get(t, 0), t))
            attempts[t] = attempts.get(t, 0) + 1
    return header + lines, order


class NativeTrace:
    """Events observed in the native run, keyed by target."""

    def __init__(self, res, case):
        self.rc = res['rc']
        self.log = res['log']
        self.stderr = res['stderr']
        self.events = []
        self.proc_target = {}
        self.stuck = any(l.startswith('stuck') for l in self.log)
        # virtual processes still running when nothing can move any more (they exit only when the schedule says so)
        self.stuck_running = []
        for l in self.log:
            m = re.match(r'stuck running_procs=\[(.*)\]', l)
            if m and m.group(1).strip():
                self.stuck_running = [int(x) for x in m.group(1).split(',')]
        self.main_done = any(l.startswith('main_done') for l in self.log)
        self.unreaped = []
        for l in self.log:
            m = re.match(r'proc_spawn p(\d+) task=(\d+) dir=\S* script="echo t(\d+)"', l)
            if m:
                self.proc_target[int(m.group(1))] = int(m.group(3))
                self.events.append(('spawn', int(m.group(3))))
                continue
            m = re.match(r'proc_spawn_failed task=(\d+) script="echo t(\d+)"', l)
            if m:
                self.events.append(('spawn_failed', int(m.group(2))))
                continue
            m = re.match(r'proc_exit p(\d+) (\d+)', l)
            if m and int(m.group(1)) in self.proc_target:
                self.events.append(('exit', self.proc_target[int(m.group(1))], int(m.group(2))))
                continue
            m = re.match(r'proc_kill p(\d+)', l)
            if m and int(m.group(1)) in self.proc_target:
                self.events.append(('kill', self.proc_target[int(m.group(1))]))
                continue
            m = re.match(r'proc_reap p(\d+) (code=(\d+)|killed)', l)
            if m and int(m.group(1)) in self.proc_target:
                self.events.append(('reap', self.proc_target[int(m.group(1))], int(m.group(3)) if m.group(3) else 'killed'))
                continue
            m = re.match(r'notify w\d+ ok .*src_t(\d+)', l)
            if m:
                self.events.append(('notify', int(m.group(1))))
                continue
            if l.startswith('signal'):
                self.events.append(('signal',))
            if l.startswith('main_done'):
                self.events.append(('main_done',))
            if l.startswith('schedule_end'):
                self.events.append(('schedule_end',))
            m = re.match(r'exit_procs_unreaped=\[(.*)\]', l)
            if m and m.group(1).strip():
                self.unreaped = [self.proc_target.get(int(x)) for x in m.group(1).split(',')]

    def summary(self):
        return {'rc': self.rc, 'stuck': self.stuck, 'stuck_with_running_processes': self.stuck_running, 'main_done': self.main_done, 'events': [list(e) for e in self.events],
                'unreaped': self.unreaped, 'stderr_tail': self.stderr[-400:]}


def replay_case(case, repo='/repo', keep_dir=None, timeout=60):
    """Run the case natively; returns (NativeTrace, schedule lines, build info)."""
    binpath, info = build_native(repo)
    d = tempfile.mkdtemp(prefix='zx-replay-', dir=os.environ.get('VERIF_SCRATCH', '/var/tmp'))
    try:
        args = write_project(case, d)
        warmup(binpath, case, d)
        sched, order = schedule_for(case, d)
        res = run_native(binpath, d, args, sched, timeout=timeout)
        tr = NativeTrace(res, case)
        return tr, sched, info, args
    finally:
        shutil.rmtree(d, ignore_errors=True)


def warmup(binpath, case, d):
    """Targets the model skips get their state recorded by a free-running invocation before the replayed one."""
    if case.get('skip') and not case['watch']:
        r = run_native(binpath, d, ['t%d' % i for i in case['skip']], None, timeout=60)
        return r['rc']
    return None


def save_replay(path, prop, what, case, sched, args, native):
    os.makedirs(os.path.dirname(path), exist_ok=True)
    json.dump({'property': prop, 'what': what, 'case': case, 'cli_args': args, 'schedule': sched, 'native': native,
               'how_to_replay': 'python3-vt /verif/run_check.py --replay %s' % path}, open(path, 'w'), indent=1, default=str)


def schedule_for_q(case, project_dir, cap):
    """Schedule for SYSQ traces: explicit relay steps, blocking sends, channel capacities clamped to `cap` natively."""
    order = list(case['launch0'])
    lines = ['cap %d' % cap, 'poll 0 -']

    def task(i):
        return 2 + order.index(i)

    def chans(i):
        k = order.index(i)
        base = 2 + 3 * k
        return {'term': 't0.%d' % base, 'inval': 't0.%d' % (base + 1), 'inbox': 't0.%d' % (base + 2)}
    for st in case['steps']:
        alt = st['alt']
        a = alt[0]
        for i in st['launch']:
            if i not in order:
                order.append(i)
        if a == 'stutter':
            continue
        if a in ('inbox', 'term', 'inval'):
            i = alt[1]
            if i not in order:
                lines.append('# t%d not launched yet' % i)
                continue
            lines.append('poll %d %s 1' % (task(i), chans(i)[a]))
        elif a == 'flush':
            lines.append('poll %d -' % task(alt[1]))
        elif a == 'relay':
            lines.append('poll 0 %s 1' % OUT)
        elif a == 'main_flush':
            lines.append('poll 0 -')
        elif a == 'bf_start':
            lines.append('poll %d -' % task(alt[1]))
        elif a == 'bf_cancel':
            lines.append('poll %d t%d.* 1' % (task(alt[1]), task(alt[1])))
        elif a == 'bf_exit':
            i = alt[1]
            okv = [v for o, v in st['oracles'].items() if 'exit_success' in o]
            lines.append('exitscript %d echo t%d' % (0 if (not okv or okv[0]) else 1, i))
            lines.append('poll %d -' % task(i))
        elif a == 'signal':
            lines += ['signal', 'poll 1 -']
        elif a == 'main_signal':
            lines.append('poll 0 %s 1' % SIG)
        elif a in ('main_terminate', 'main_exit'):
            lines.append('poll 0 -')
    return lines, order
