"""Native replay of LOCAL (single actor, open environment) traces through the cfg(zx) harness replay/local_harness.rs,
and a concrete re-evaluation of the contract monitors on what the real actor did."""
import os
import re
import shutil
import tempfile

import z3

from .native import build_native, run_native


def model_trace(ls, u, m):
    """Decode a LOCAL model into a list of steps: {'alt':..., 'msg': label or None, 'actual': bool, 'oracles': {...}}."""
    ev = lambda t: z3.is_true(m.eval(t, model_completion=True))
    me = ls.me
    am = ls.actors[me]
    steps = []
    for k, ch in enumerate(u.choices):
        v = m.eval(ch, model_completion=True).as_long()
        nm = u.alt_names[v] if v < len(u.alt_names) else ('stutter',)
        st = {'alt': list(nm), 'msg': None, 'actual': False, 'exit_ok': True, 'spawn_fails': False}
        if nm[0] == 'inbox':
            sel = m.eval(u.oracles[k][('env', 'env_sel')], model_completion=True).as_long()
            st['msg'] = list(am.msgs[sel][0])
            st['actual'] = ev(u.oracles[k][('env', 'env_actual')])
        for (who, n), val in u.oracles.get(k, {}).items():
            if 'exit_success' in n and nm[0] == 'bf_exit':
                st['exit_ok'] = ev(val)
        st['spawn_failed'] = any(ev(g) for key, (g, f) in u.obs[k + 1].ev.get('spawn_failed', {}).items())
        st['spawn'] = any(ev(g) for key, (g, f) in u.obs[k + 1].ev.get('spawn', {}).items())
        steps.append(st)
    deps = [j for j in range(me) if ev(ls.dep[me][j])]
    if getattr(ls, 'dup', None) is not None and deps and deps[0] == 0 and ev(ls.dup):
        deps.append(0)      # the first dependency is listed twice
    return {'kind': ls.kind, 'watch': ls.watch, 'me': me, 'n': ls.n, 'deps': deps, 'steps': steps}


def run_trace(trace, repo='/repo'):
    binpath, info = build_native(repo)
    d = tempfile.mkdtemp(prefix='zx-local-', dir=os.environ.get('VERIF_SCRATCH', '/var/tmp'))
    try:
        os.makedirs(os.path.join(d, 'src_in'), exist_ok=True)
        open(os.path.join(d, 'src_in', 'f.txt'), 'w').write('0')
        me = 't%d' % trace['me']
        events = ['target %s %s %d %s' % (trace['kind'], me, 1 if trace['watch'] else 0, ' '.join('t%d' % j for j in trace['deps']))]
        sched = []
        header = []
        attempts = 0
        edits = 0
        for st in trace['steps']:
            a = st['alt'][0]
            if a == 'stutter':
                continue
            if a == 'inbox':
                v, k, who = st['msg']
                events.append('msg %s %s %s%s' % (v, k, who, ' actual' if (v == 'Ok' and st['actual']) else ''))
                sched += ['poll 0 *', 'poll 1 t0.3 1']
            elif a == 'term':
                events.append('term')
                sched += ['poll 0 *', 'poll 1 t0.1 1']
            elif a == 'inval':
                events.append('nop')
                edits += 1
                sched += ['poll 0 *', 'write %s v%d' % (os.path.join(d, 'src_in', 'f.txt'), edits), 'notify 0 ok %s' % os.path.join(d, 'src_in', 'f.txt'), 'poll 1 t0.2 1']
            elif a == 'bf_start':
                events.append('nop')
                sched += ['poll 0 *', 'poll 1 -']
            elif a == 'bf_cancel':
                events.append('nop')
                sched += ['poll 0 *', 'poll 1 t1.* 1']
            elif a == 'bf_exit':
                events.append('nop')
                sched += ['poll 0 *', 'exitscript %d echo %s' % (0 if st['exit_ok'] else 1, me), 'poll 1 -']
            if st.get('spawn_failed'):
                header.append('failspawn %d echo %s' % (attempts, me))
                attempts += 1
            elif st.get('spawn'):
                attempts += 1
            events.append('nop')
            sched.append('poll 0 *')
        if not trace['watch']:
            # one more poll of the actor without delivering anything: a build it has decided on gets its first poll (spawn)
            events += ['nop', 'nop']
            sched += ['poll 1 -', 'poll 0 *']
        evf = os.path.join(d, 'events.txt')
        open(evf, 'w').write('\n'.join(events) + '\n')
        res = run_native(binpath, d, [], header + sched, timeout=60, extra_env={'ZX_LOCAL': evf, 'ZX_LOCAL_DIR': d})
        return parse_log(res, trace), header + sched, events
    finally:
        shutil.rmtree(d, ignore_errors=True)


OUT_RE = re.compile(r'out MessageActor \{ dest: (Root|Target\(TargetId \{ project_name: None, target_name: "(\w+)" \}\)), msg: (\w+) \{ kind: (\w+), (?:requester: (Root|Target\(TargetId \{ project_name: None, target_name: "(\w+)" \}\))|target_id: TargetId \{ project_name: None, target_name: "(\w+)" \})(?:, actual: (true|false))? \} \}')


def parse_log(res, trace):
    """-> list of native steps: {'event': str, 'out': [(dest, variant, kind, who, actual)], 'errs': n, 'spawn': n, 'kill': n, 'reap': [...]}"""
    steps = []
    cur = None
    for l in res['log']:
        if l.startswith('event '):
            cur = {'event': l[6:], 'out': [], 'errs': 0, 'spawn': 0, 'spawn_failed': 0, 'kill': 0, 'reap': []}
            steps.append(cur)
            continue
        if cur is None:
            continue
        if l.startswith('out TargetExecutionError'):
            cur['errs'] += 1
        elif l.startswith('out '):
            m = OUT_RE.match(l)
            if m:
                dest = 'ROOT' if m.group(1) == 'Root' else m.group(2)
                who = ('ROOT' if m.group(5) == 'Root' else m.group(6)) if m.group(5) else m.group(7)
                cur['out'].append((dest, m.group(3), m.group(4), who, m.group(8) == 'true' if m.group(8) else None))
            else:
                cur['out'].append(('?', l, None, None, None))
        elif l.startswith('proc_spawn_failed'):
            cur['spawn_failed'] += 1
        elif l.startswith('proc_spawn'):
            cur['spawn'] += 1
        elif l.startswith('proc_kill'):
            cur['kill'] += 1
        elif l.startswith('proc_reap'):
            cur['reap'].append(l.split()[-1])
        elif l.startswith('proc_dropped_unreaped') and 'Running' in l:
            cur['dropped_running'] = cur.get('dropped_running', 0) + 1
    # merge (event, nop) pairs: outputs logged at the following env poll belong to the event before it
    merged = []
    i = 0
    while i < len(steps):
        st = steps[i]
        if i + 1 < len(steps) and steps[i + 1]['event'] == 'nop' and st['event'] != 'nop' or (st['event'] == 'nop' and i + 1 < len(steps) and steps[i + 1]['event'] == 'nop'):
            nx = steps[i + 1]
            for k in ('out', 'reap'):
                st[k] = st[k] + nx[k]
            for k in ('errs', 'spawn', 'spawn_failed', 'kill'):
                st[k] += nx[k]
            st['dropped_running'] = st.get('dropped_running', 0) + nx.get('dropped_running', 0)
            merged.append(st)
            i += 2
        else:
            merged.append(st)
            i += 1
    return {'steps': merged, 'rc': res['rc'], 'stderr': res['stderr'][-300:]}


def concrete_monitor(trace, native):
    """Re-evaluate the LOCAL contract on the native observations. Returns set of violated monitor names."""
    me = 't%d' % trace['me']
    kindme = trace['kind']
    deps = ['t%d' % j for j in trace['deps']]
    word = {(d, k): False for d in deps for k in ('Build', 'Service')}
    seen = {}
    inval_pending = False
    acked = {'Build': False, 'Service': False}
    act = {(d, k): False for d in deps for k in ('Build', 'Service')}
    proc = False
    nspawn = 0
    viol = set()
    reqsent = {(d, k): False for d in deps for k in ('Build', 'Service')}
    wanted = {'Build': False, 'Service': False}
    terminated_ = False
    told_ok_ = False
    msteps = [s for s in trace['steps'] if s['alt'][0] != 'stutter']
    for st, nat in zip(msteps, native['steps']):
        a = st['alt'][0]
        msg = st['msg'] if a == 'inbox' else None
        if msg:
            v, k, who = msg
            if v == 'Ok' and (who, k) in word:
                word[(who, k)] = True
            if v == 'Invalidated' and (who, k) in word:
                word[(who, k)] = False
            if v == 'Ok' and (who, k) in act:
                act[(who, k)] = bool(st['actual'])
        outs = nat['out']
        acked_pre = dict(acked)
        oks = [(o[0], o[2]) for o in outs if o[1] == 'Ok' and o[3] == me]
        invs = [o[2] for o in outs if o[1] == 'Invalidated' and o[3] == me]
        wbad = any(not w for w in word.values())
        if nat['spawn'] and kindme != 'aggregate':
            if wbad:
                viol.add('bad_decide')
            if proc and not nat['reap']:
                viol.add('double_proc')
            nspawn += nat['spawn']
        if nat['spawn']:
            proc = True
        if nat['reap']:
            proc = bool(nat['spawn'])
        for k in ('Build', 'Service'):
            own = (kindme == 'build' and k == 'Build') or (kindme == 'service' and k == 'Service') or kindme == 'aggregate'
            if not own:
                continue
            if msg and msg[0] == 'Requested' and msg[1] == k:
                r = msg[2]
                new = not seen.get((k, r), False)
                answered = (r, k) in oks
                if new and acked[k] and not answered:
                    viol.add('late_unanswered')
                seen[(k, r)] = True
            for (dest, kk) in oks:
                if kk == k and not seen.get((k, dest), False):
                    viol.add('misdirected_ok')
            emits_ok = any(kk == k and True for (dest, kk) in oks if True) and any(o[1] == 'Ok' and o[2] == k and o[3] == me and (o[4] is not False or kindme == 'aggregate') for o in outs)
            kks = ('Build',) if kindme == 'build' else (('Build', 'Service') if kindme == 'service' else (k,))
            inval_in = bool(msg and msg[0] == 'Invalidated' and msg[1] in kks)
            invalidating = (k in invs) or (a == 'inval' and kindme != 'aggregate')
            if invalidating or inval_in:
                acked[k] = False
            elif emits_ok:
                acked[k] = True
            if kindme == 'aggregate' and any(o[1] == 'Ok' and o[2] == k and o[3] == me for o in outs):
                if any(not word[(d, k)] for d in deps):
                    viol.add('ok_without_cause')
        if kindme in ('build', 'service'):
            # C07: an execution failed while the last announcement to the requesters was Ok
            ownk_ = 'Build' if kindme == 'build' else 'Service'
            e_inv_ = any(o[1] == 'Invalidated' and o[2] == ownk_ and o[3] == me for o in outs)
            e_ok_ = any(o[1] == 'Ok' and o[2] == ownk_ and o[3] == me for o in outs)
            if (nat['errs'] or nat['spawn_failed']) and told_ok_ and not e_inv_:
                viol.add('failed_while_acknowledged')
            told_ok_ = False if e_inv_ else (True if e_ok_ else told_ok_)
        if kindme == 'build':
            # a successful result of a run that was invalidated in flight must not be acknowledged
            inval_now = bool((msg and msg[0] == 'Invalidated' and msg[1] == 'Build') or a == 'inval')
            res_ok = any(r == 'code=0' for r in nat['reap'])
            emits_okb = any(o[1] == 'Ok' and o[2] == 'Build' and o[3] == me and o[4] for o in outs)
            if res_ok and emits_okb and inval_pending and not inval_now:
                viol.add('ok_without_cause')
            # Ok{Build, actual} is only caused by a successful result or by a late requester of a target that is acknowledged
            late_req = bool(msg and msg[0] == 'Requested' and msg[1] == 'Build' and acked_pre['Build'])
            if emits_okb and not res_ok and not late_req:
                viol.add('ok_without_cause')
            if nat['spawn']:
                inval_pending = False
            elif inval_now:
                inval_pending = True
        if kindme in ('build', 'service'):
            own = 'Build' if kindme == 'build' else 'Service'
            for o in outs:
                if o[1] == 'Ok' and o[3] == me and o[4] is not None and o[4] != (o[2] == own):
                    viol.add('wrong_actual')
        if kindme == 'aggregate':
            for o in outs:
                if o[1] == 'Ok' and o[3] == me and o[4] is not None:
                    want = any(act[(d, o[2])] for d in deps)
                    if o[4] != want:
                        viol.add('wrong_actual')
        if nat['errs'] and any(o[1] == 'Ok' and o[3] == me and o[4] for o in outs):
            viol.add('ok_on_fail')
        for o in outs:
            if o[1] in ('Requested', 'Unrequested') and (o[0], o[2]) in reqsent:
                reqsent[(o[0], o[2])] = (o[1] == 'Requested')
        if msg and msg[0] == 'Requested':
            wanted[msg[1]] = True
        terminated_ = terminated_ or a == 'term'
        returned = terminated_ or bool(nat.get('dropped_running'))
        for k in {'build': ('Build',), 'service': ('Service',), 'aggregate': ('Build', 'Service')}[kindme]:
            if wanted[k] and not returned:
                for d in deps:
                    asked = reqsent[(d, k)] if kindme == 'aggregate' else (reqsent[(d, 'Build')] or reqsent[(d, 'Service')])
                    if not asked:
                        viol.add('withheld_request')
        for o in outs:
            if o[1] == 'Requested' and o[0] not in deps:
                viol.add('requested_non_dependency')
            if o[1] in ('Ok', 'Invalidated') and o[3] is not None and o[3] != me:
                viol.add('reports_on_another_target')
    if not trace['watch'] and nspawn > 1:
        viol.add('twice')
    # C04: at the end of a one-shot trace the target is wanted, every dependency's last word is Ok, and nothing was started / acknowledged
    if not trace['watch'] and not terminated_ and not any(n.get('dropped_running') for n in native['steps']):
        for k in {'build': ('Build',), 'service': ('Service',), 'aggregate': ('Build', 'Service')}[kindme]:
            if not wanted[k]:
                continue
            if kindme == 'aggregate':
                if all(word[(d, k)] for d in deps) and not acked[k]:
                    viol.add('idle_although_ready')
            elif all(word.values()) and sum(n['spawn'] + n['spawn_failed'] for n in native['steps']) == 0:
                viol.add('idle_although_ready')
    # the actor returned (its Child was dropped) while the process it had spawned was still running
    if any(n.get('dropped_running') for n in native['steps']):
        viol.add('proc_left_at_exit')
    return viol
