"""State templates: the *shape* of a coroutine's local state with named symbolic slots.

A template is inferred from the values the real code produces (initial state, then widened with every
post-state until a fixpoint): booleans, set memberships, map/vector presence and enum/Option
discriminants become slots; everything else must stay constant (else Unsupported).
"""
import z3

from .prog import Unsupported
from .values import (NONE, UNIT, Closure, FnRef, Opaque, REnum, RMap, RSet, RStruct, RTuple, RVec, Ref, Union,
                     b_and, b_not, b_or, is_boolish, is_intish, is_sym, key_of, shape_sig, simp, zbool, zint)


class NeedWiden(Exception):
    def __init__(self, path, why):
        self.path, self.why = path, why
        super().__init__('%s: %s' % (path, why))


class T:
    pass


class TBool(T):
    def __init__(self):
        pass


class TConst(T):
    def __init__(self, v):
        self.v = v


class TInt(T):
    """A small unsigned counter (16-bit slot)."""
    def __init__(self):
        pass


class TStruct(T):
    def __init__(self, ty, fields):
        self.ty, self.fields = ty, fields


class TEnum(T):
    def __init__(self, ty, variant, payload):
        self.ty, self.variant, self.payload = ty, variant, payload


class TTuple(T):
    def __init__(self, items):
        self.items = items


class TSet(T):
    def __init__(self, keys, ordered):
        self.keys, self.ordered = keys, ordered   # key -> value


class TMap(T):
    def __init__(self, entries, ordered):
        self.entries, self.ordered = entries, ordered   # key -> [keyvalue, T, maybe_absent]


class TVec(T):
    def __init__(self, items, keyed=False):
        self.items, self.keyed = items, keyed   # list of [T, key or None]; keyed => presence slots


class TOpaque(T):
    def __init__(self, tag, data):
        self.tag, self.data = tag, data


class TUnion(T):
    def __init__(self, alts):
        self.alts = alts


def _const_like(v):
    return isinstance(v, (str, Closure, FnRef, dict, list, tuple)) or v is UNIT or v is None or (isinstance(v, int) and not isinstance(v, bool)) \
        or callable(v) or type(v).__name__ in ('FnDef',)


def from_value(v):
    if isinstance(v, bool) or (is_sym(v) and z3.is_bool(v)):
        return TBool()
    if _const_like(v):
        return TConst(v)
    if is_sym(v) and z3.is_bv(v):
        return TInt()
    if is_sym(v):
        raise Unsupported('symbolic non-boolean, non-bitvector leaf in coroutine state')
    if isinstance(v, RStruct):
        return TStruct(v.ty, {k: from_value(x) for k, x in v.fields.items()})
    if isinstance(v, REnum):
        return TEnum(v.ty, v.variant, {k: from_value(x) for k, x in v.payload.items()})
    if isinstance(v, RTuple):
        return TTuple([from_value(x) for x in v.items])
    if isinstance(v, RSet):
        return TSet({k: x for k, (g, x) in v.entries.items()}, v.ordered)
    if isinstance(v, RMap):
        return TMap({k: [kv, from_value(x), g is not True] for k, (g, kv, x) in v.entries.items()}, v.ordered)
    if isinstance(v, RVec):
        if all(g is True for g, _ in v.items):
            return TVec([[from_value(x), None] for g, x in v.items])
        return TVec([[from_value(x), _vkey(x)] for g, x in v.items], keyed=True)
    if isinstance(v, Opaque):
        return TOpaque(v.tag, {k: from_value(x) for k, x in v.data.items()})
    if isinstance(v, Union):
        t = None
        for g, x in v.alts:
            t = from_value(x) if t is None else widen(t, x)[0]
        return t
    if isinstance(v, Ref):
        raise Unsupported('reference stored in coroutine state across a suspension')
    raise Unsupported('template of %r' % (v,))


def _same_const(a, b):
    if a is b:
        return True
    try:
        return a == b and type(a) == type(b)
    except Exception:
        return False


def covers(t, v):
    """Does template t cover the shape of value v (without widening)?"""
    try:
        _, ch = widen(t, v, dry=True)
        return not ch
    except NeedWiden:
        return False


def widen(t, v, dry=False):
    """Return (t', changed) such that t' covers v and everything t covered."""
    if isinstance(v, Union):
        ch = False
        for g, x in v.alts:
            t, c = widen(t, x, dry)
            ch = ch or c
        return t, ch
    if isinstance(t, TUnion):
        for i, a in enumerate(t.alts):
            if _compatible(a, v):
                a2, c = widen(a, v, dry)
                if c and not dry:
                    t.alts[i] = a2
                return t, c
        if dry:
            return t, True
        return TUnion(t.alts + [from_value(v)]), True
    if isinstance(t, TConst) and isinstance(t.v, int) and not isinstance(t.v, bool) and is_intish(v) and not _compatible(t, v):
        return TInt(), True
    if not _compatible(t, v):
        if dry:
            return t, True
        return TUnion([t, from_value(v)]), True
    if isinstance(t, (TBool, TInt)):
        return t, False
    if isinstance(t, TConst):
        return t, False
    if isinstance(t, TStruct):
        ch = False
        for k in t.fields:
            t2, c = widen(t.fields[k], v.fields[k], dry)
            if c:
                ch = True
                if not dry:
                    t.fields[k] = t2
        return t, ch
    if isinstance(t, TEnum):
        ch = False
        for k in t.payload:
            t2, c = widen(t.payload[k], v.payload[k], dry)
            if c:
                ch = True
                if not dry:
                    t.payload[k] = t2
        return t, ch
    if isinstance(t, TTuple):
        ch = False
        for i in range(len(t.items)):
            t2, c = widen(t.items[i], v.items[i], dry)
            if c:
                ch = True
                if not dry:
                    t.items[i] = t2
        return t, ch
    if isinstance(t, TOpaque):
        ch = False
        for k in t.data:
            t2, c = widen(t.data[k], v.data[k], dry)
            if c:
                ch = True
                if not dry:
                    t.data[k] = t2
        return t, ch
    if isinstance(t, TSet):
        ch = False
        for k, (g, x) in v.entries.items():
            if k not in t.keys:
                ch = True
                if not dry:
                    t.keys[k] = x
        return t, ch
    if isinstance(t, TMap):
        ch = False
        for k, (g, kv, x) in v.entries.items():
            if k not in t.entries:
                ch = True
                if not dry:
                    t.entries[k] = [kv, from_value(x), True]
            else:
                t2, c = widen(t.entries[k][1], x, dry)
                if c:
                    ch = True
                    if not dry:
                        t.entries[k][1] = t2
                if g is not True and not t.entries[k][2]:
                    ch = True
                    if not dry:
                        t.entries[k][2] = True
        for k in t.entries:
            if k not in v.entries and not t.entries[k][2]:
                ch = True
                if not dry:
                    t.entries[k][2] = True
        return t, ch
    if isinstance(t, TVec):
        if not t.keyed and len(t.items) == len(v.items) and all(g is True for g, _ in v.items):
            ch = False
            for i in range(len(t.items)):
                t2, c = widen(t.items[i][0], v.items[i][1], dry)
                if c:
                    ch = True
                    if not dry:
                        t.items[i][0] = t2
            return t, ch
        # keyed mode: elements identified by their concrete key; presence becomes a slot
        ch = False
        if not t.keyed:
            ch = True
            if dry:
                return t, True
            t.keyed = True
            for it in t.items:
                it[1] = _tkey(it[0])
        have = {it[1] for it in t.items}
        for g, x in v.items:
            k = _vkey(x)
            if k not in have:
                ch = True
                if not dry:
                    t.items.append([from_value(x), k])
                    have.add(k)
        return t, ch
    raise Unsupported('widen %r' % (t,))


def _tkey(t):
    """Key of a constant-only template (used for keyed vectors)."""
    if isinstance(t, TConst):
        return key_of(t.v) if not isinstance(t.v, (dict, list)) else id(t.v)
    if isinstance(t, TStruct):
        return (t.ty,) + tuple((k, _tkey(x)) for k, x in t.fields.items())
    if isinstance(t, TEnum):
        return (t.ty, t.variant) + tuple((k, _tkey(x)) for k, x in t.payload.items())
    if isinstance(t, TOpaque):
        return (t.tag,) + tuple((k, _tkey(x)) for k, x in sorted(t.data.items()))
    if isinstance(t, TTuple):
        return ('tuple',) + tuple(_tkey(x) for x in t.items)
    raise Unsupported('vector of varying length whose elements are not constants')


def _vkey(v):
    if isinstance(v, (str, int)) or v is UNIT:
        return key_of(v)
    if isinstance(v, RStruct):
        return (v.ty,) + tuple((k, _vkey(x)) for k, x in v.fields.items())
    if isinstance(v, REnum):
        return (v.ty, v.variant) + tuple((k, _vkey(x)) for k, x in v.payload.items())
    if isinstance(v, Opaque):
        return (v.tag,) + tuple((k, _vkey(x)) for k, x in sorted(v.data.items()))
    if isinstance(v, RTuple):
        return ('tuple',) + tuple(_vkey(x) for x in v.items)
    if isinstance(v, (dict, list)):
        return id(v)
    raise Unsupported('vector of varying length whose elements are not constants: %r' % (v,))


def _compatible(t, v):
    """Same outer shape (so that widening can proceed structurally)."""
    if isinstance(t, TBool):
        return is_boolish(v)
    if isinstance(t, TInt):
        return is_intish(v)
    if isinstance(t, TConst):
        if is_boolish(v):
            return False
        return _const_like(v) and _same_const(t.v, v)
    if isinstance(t, TStruct):
        return isinstance(v, RStruct) and v.ty == t.ty and v.fields.keys() == t.fields.keys()
    if isinstance(t, TEnum):
        return isinstance(v, REnum) and v.ty == t.ty and v.variant == t.variant and v.payload.keys() == t.payload.keys()
    if isinstance(t, TTuple):
        return isinstance(v, RTuple) and len(v.items) == len(t.items)
    if isinstance(t, TSet):
        return isinstance(v, RSet)
    if isinstance(t, TMap):
        return isinstance(v, RMap)
    if isinstance(t, TVec):
        return isinstance(v, RVec)
    if isinstance(t, TOpaque):
        return isinstance(v, Opaque) and v.tag == t.tag and v.data.keys() == t.data.keys()
    if isinstance(t, TUnion):
        return any(_compatible(a, v) for a in t.alts)
    return False


class Inst:
    """Instantiation of a template with fresh z3 constants."""

    def __init__(self, tmpl, prefix):
        self.tmpl = tmpl
        self.prefix = prefix
        self.slots = []        # (name, z3 const)
        self.constraints = []  # validity constraints on union tags
        self.memo = {}         # id(value) -> (template node, path)
        self.value = self._inst(tmpl, prefix)
        self.slot_index = {n: c for n, c in self.slots}

    def _slot(self, name, sort='bool', width=None):
        c = z3.Bool(name) if sort == 'bool' else z3.BitVec(name, width)
        self.slots.append((name, c))
        return c

    def _inst(self, t, p):
        v = self._inst2(t, p)
        if not isinstance(v, (bool, int, str)) and v is not UNIT and v is not None and not is_sym(v):
            self.memo[id(v)] = (t, p, v)
        return v

    def _inst2(self, t, p):
        if isinstance(t, TBool):
            return self._slot(p)
        if isinstance(t, TInt):
            return self._slot(p, 'bv', 16)
        if isinstance(t, TConst):
            return t.v
        if isinstance(t, TStruct):
            return RStruct(t.ty, {k: self._inst(x, '%s.%s' % (p, k)) for k, x in t.fields.items()})
        if isinstance(t, TEnum):
            return REnum(t.ty, t.variant, {k: self._inst(x, '%s.%s' % (p, k)) for k, x in t.payload.items()})
        if isinstance(t, TTuple):
            return RTuple(self._inst(x, '%s.%d' % (p, i)) for i, x in enumerate(t.items))
        if isinstance(t, TOpaque):
            return Opaque(t.tag, **{k: self._inst(x, '%s.%s' % (p, k)) for k, x in t.data.items()})
        if isinstance(t, TSet):
            return RSet({k: (self._slot('%s[%s]' % (p, _kname(k))), x) for k, x in t.keys.items()}, t.ordered)
        if isinstance(t, TMap):
            ent = {}
            for k, (kv, x, maybe) in t.entries.items():
                g = self._slot('%s[%s]?' % (p, _kname(k))) if maybe else True
                ent[k] = (g, kv, self._inst(x, '%s[%s]' % (p, _kname(k))))
            return RMap(ent, t.ordered)
        if isinstance(t, TVec):
            items = []
            for i, (x, k) in enumerate(t.items):
                g = self._slot('%s<%d>?' % (p, i)) if t.keyed else True
                items.append((g, self._inst(x, '%s<%d>' % (p, i))))
            return RVec(items)
        if isinstance(t, TUnion):
            n = len(t.alts)
            w = max(1, (n - 1).bit_length())
            tag = self._slot('%s#tag' % p, 'bv', w)
            if n < (1 << w):
                self.constraints.append(z3.ULT(tag, z3.BitVecVal(n, w)))
            return Union([(tag == i, self._inst(a, '%s#%d' % (p, i))) for i, a in enumerate(t.alts)])
        raise Unsupported('instantiate %r' % (t,))

    # ------------------------------------------------------------------
    def extract(self, v):
        """Map a post-state value (same template) to {slot name: term}."""
        out = {}
        self._ext(self.tmpl, self.prefix, v, out, True)
        return out

    def _identity(self, t, p, out):
        """All slots under (t,p) keep their pre-state value."""
        for n, c in self.slots:
            if n == p or n.startswith(p + '.') or n.startswith(p + '[') or n.startswith(p + '<') or n.startswith(p + '#'):
                out[n] = c

    def _default(self, t, p, out):
        for n, c in self.slots:
            if n == p or n.startswith(p + '.') or n.startswith(p + '[') or n.startswith(p + '<') or n.startswith(p + '#'):
                if n not in out:
                    out[n] = False if z3.is_bool(c) else z3.BitVecVal(0, c.size())

    def _ext(self, t, p, v, out, live):
        m = self.memo.get(id(v))
        if m is not None and m[0] is t and m[1] == p and m[2] is v:
            self._identity(t, p, out)
            return
        if isinstance(v, Union):
            raise NeedWiden(p, 'unresolved union in post-state')
        if not isinstance(t, TUnion) and not _compatible(t, v):
            raise NeedWiden(p, 'shape %r not covered' % (shape_sig(v),))
        if isinstance(t, TBool):
            out[p] = v
        elif isinstance(t, TInt):
            out[p] = zint(v, 16)
        elif isinstance(t, TConst):
            pass
        elif isinstance(t, TStruct):
            for k, x in t.fields.items():
                self._ext(x, '%s.%s' % (p, k), v.fields[k], out, live)
        elif isinstance(t, TEnum):
            for k, x in t.payload.items():
                self._ext(x, '%s.%s' % (p, k), v.payload[k], out, live)
        elif isinstance(t, TTuple):
            for i, x in enumerate(t.items):
                self._ext(x, '%s.%d' % (p, i), v.items[i], out, live)
        elif isinstance(t, TOpaque):
            for k, x in t.data.items():
                self._ext(x, '%s.%s' % (p, k), v.data[k], out, live)
        elif isinstance(t, TSet):
            for k in v.entries:
                if k not in t.keys:
                    raise NeedWiden(p, 'set element %r outside the universe' % (k,))
            for k in t.keys:
                out['%s[%s]' % (p, _kname(k))] = v.entries.get(k, (False, None))[0]
        elif isinstance(t, TMap):
            for k in v.entries:
                if k not in t.entries:
                    raise NeedWiden(p, 'map key %r outside the universe' % (k,))
            for k, (kv, x, maybe) in t.entries.items():
                e = v.entries.get(k)
                if e is None:
                    if not maybe:
                        raise NeedWiden(p, 'map key %r may be absent' % (k,))
                    out['%s[%s]?' % (p, _kname(k))] = False
                    self._default(x, '%s[%s]' % (p, _kname(k)), out)
                else:
                    if maybe:
                        out['%s[%s]?' % (p, _kname(k))] = e[0]
                    elif e[0] is not True:
                        raise NeedWiden(p, 'map key %r may be absent' % (k,))
                    self._ext(x, '%s[%s]' % (p, _kname(k)), e[2], out, live)
        elif isinstance(t, TVec):
            if not t.keyed:
                if len(v.items) != len(t.items) or not all(g is True for g, _ in v.items):
                    raise NeedWiden(p, 'vector length varies')
                for i, (x, _) in enumerate(t.items):
                    self._ext(x, '%s<%d>' % (p, i), v.items[i][1], out, live)
            else:
                pos = {k: i for i, (x, k) in enumerate(t.items)}
                seen = {}
                for g, x in v.items:
                    k = _vkey(x)
                    if k not in pos:
                        raise NeedWiden(p, 'vector element outside the universe')
                    seen[pos[k]] = b_or(seen.get(pos[k], False), g)
                for i in range(len(t.items)):
                    out['%s<%d>?' % (p, i)] = seen.get(i, False)
        elif isinstance(t, TUnion):
            idx = None
            for i, a in enumerate(t.alts):
                if _compatible(a, v):
                    idx = i
                    break
            if idx is None:
                raise NeedWiden(p, 'shape %r not covered by union' % (shape_sig(v),))
            w = max(1, (len(t.alts) - 1).bit_length())
            out['%s#tag' % p] = z3.BitVecVal(idx, w)
            self._ext(t.alts[idx], '%s#%d' % (p, idx), v, out, live)
            for i, a in enumerate(t.alts):
                if i != idx:
                    self._default(a, '%s#%d' % (p, i), out)
        else:
            raise Unsupported('extract %r' % (t,))


def _kname(k):
    if isinstance(k, str):
        return k
    if isinstance(k, tuple):
        # TargetId / ActorId / ExecutionKind keys: compact readable name
        flat = []

        def rec(x):
            if isinstance(x, tuple):
                for y in x:
                    rec(y)
            elif isinstance(x, str):
                flat.append(x)
        rec(k)
        drop = {'TargetId', 'project_name', 'target_name', 'Option', 'None', 'Some', 'ActorId', 'ExecutionKind'}
        return '_'.join(x for x in flat if x not in drop) or 'k'
    return str(k)


def describe(t, indent=0):
    """Human-readable dump of a template (for evidence)."""
    if isinstance(t, TBool):
        return 'bool'
    if isinstance(t, TInt):
        return 'u16'
    if isinstance(t, TConst):
        r = repr(t.v)
        return 'const' if len(r) > 40 else r
    if isinstance(t, TStruct):
        return '%s{%s}' % (t.ty, ', '.join('%s: %s' % (k, describe(x)) for k, x in t.fields.items() if not isinstance(x, TConst)))
    if isinstance(t, TEnum):
        return '%s::%s(%s)' % (t.ty, t.variant, ', '.join(describe(x) for x in t.payload.values()))
    if isinstance(t, TTuple):
        return '(%s)' % ', '.join(describe(x) for x in t.items)
    if isinstance(t, TOpaque):
        return '<%s %s>' % (t.tag, ', '.join('%s=%s' % (k, describe(x)) for k, x in t.data.items() if not isinstance(x, TConst)))
    if isinstance(t, TSet):
        return 'set{%s}' % ', '.join(_kname(k) for k in t.keys)
    if isinstance(t, TMap):
        return 'map{%s}' % ', '.join('%s%s: %s' % (_kname(k), '?' if m else '', describe(x)) for k, (kv, x, m) in t.entries.items())
    if isinstance(t, TVec):
        return 'vec%s[%d]' % ('?' if t.keyed else '', len(t.items))
    if isinstance(t, TUnion):
        return ' | '.join(describe(a) for a in t.alts)
    return '?'
