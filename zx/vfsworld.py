"""Virtual file system + command environment for the incremental-state / clean / listing queries.

A finite universe of paths; per epoch every path has a symbolic kind (absent/file/dir), mtime (64 bit)
and content (a fixed number of abstract chunks, 32-bit ids).  `havoc()` starts a new epoch (arbitrary
change by a script or by the user between two invocations).  Operations of the code under analysis are
applied to an overlay and logged as effects.  seahash is an uninterpreted function of the chunk sequence.
"""
import z3

from .prog import Unsupported
from .values import NONE, UNIT, Opaque, REnum, RMap, RSet, RStruct, RTuple, RVec, Ref, Union, b_and, b_not, b_or, err, key_of, ok, simp, some

ABSENT, FILE, DIR, LINK = 0, 1, 2, 3     # LINK: symbolic link; its target path is given by the scenario, the target's kind is symbolic

Hinit = z3.BitVecVal(0x16f11fe89b0d677c, 64)
Hstep = z3.Function('seahash_write', z3.BitVecSort(64), z3.BitVecSort(32), z3.BitVecSort(64))
Hfin = z3.Function('seahash_finish', z3.BitVecSort(64), z3.BitVecSort(64))


def parent(p):
    if p == '/' or '/' not in p.rstrip('/'):
        return None
    par = p.rstrip('/').rsplit('/', 1)[0]
    return par if par else '/'


def lexical_norm(p):
    out = []
    for c in p.split('/'):
        if c in ('', '.'):
            continue
        if c == '..':
            if out:
                out.pop()
        else:
            out.append(c)
    return '/' + '/'.join(out)


class VfsWorld:
    def __init__(self, paths, nchunks=1, state_files=(), always_dirs=('/',), cmds=(), links=None):
        self.links = dict(links or {})       # link path -> path it points to (the link exists iff its kind is LINK; targets are not links themselves)
        self.paths = list(paths)
        self.nchunks = nchunks
        self.state_files = set(state_files)
        self.always_dirs = set(always_dirs)
        self.cmds = list(cmds)
        self.chan_caps = {}
        self.reset()

    # ------------------------------------------------------------------ per-path state
    def reset(self):
        self.epoch = 0
        self.over = {}          # path -> ('absent',) | ('dir',) | ('file', mtime, content) | ('state', value or 'corrupt')
        self.n_open = 0
        self.read_pos = {}
        self.killed = set()
        self.blobs = {}         # state file path -> serialized value written on this path

    def mutation_point(self, I, desc):
        """Called before every file-system mutation of the code under analysis (crash injection hook)."""
        h = getattr(self, 'on_mutation', None)
        if h is not None:
            h(I, desc)

    @staticmethod
    def _nm(p):
        return ''.join('%%%02x' % (ord(c) - 0xDC00) if 0xDC80 <= ord(c) <= 0xDCFF else c for c in p)

    def sym_kind(self, e, p):
        return z3.BitVec('kind_%d_%s' % (e, self._nm(p)), 2)

    def sym_mtime(self, e, p):
        return z3.BitVec('mtime_%d_%s' % (e, self._nm(p)), 64)

    def sym_chunk(self, e, p, j):
        return z3.BitVec('chunk_%d_%s_%d' % (e, self._nm(p), j), 32)

    def constraints(self, epochs):
        cs = []
        for e in epochs:
            for p in self.paths:
                k = self.sym_kind(e, p)
                cs.append(z3.ULE(k, 3 if p in self.links else 2))
                par = parent(p)
                if par in self.paths:
                    cs.append(z3.Implies(k != ABSENT, self.sym_kind(e, par) == DIR))
                if p in self.always_dirs:
                    cs.append(k == DIR)
                if p.endswith('/.zinoma'):
                    cs.append(k != FILE)      # assumption: nothing replaces the work directory by a regular file
        return cs

    def through_link(self, p):
        """(link, real path) if p lies strictly below a declared link path."""
        for l, tgt in self.links.items():
            if p.startswith(l.rstrip('/') + '/'):
                return l, tgt.rstrip('/') + p[len(l.rstrip('/')):]
        return None

    def kind(self, p):
        if '/..' in p or '/./' in p or p.endswith('/.'):
            p = lexical_norm(p)        # the kernel resolves . and .. while walking (no symlinked directories on such spellings here)
        tl = self.through_link(p)
        if tl is not None:
            l, real = tl
            kl = self.kind(l)
            return z3.If(kl == LINK, self.kind(real), z3.BitVecVal(ABSENT, 2))
        if p in self.always_dirs:
            return z3.BitVecVal(DIR, 2)
        o = self.over.get(p)
        if o is not None:
            if o[0] == 'sym':
                return o[1]
            return z3.BitVecVal({'absent': ABSENT, 'dir': DIR, 'file': FILE, 'state': FILE}[o[0]], 2)
        # an ancestor removed on this path hides the subtree
        q = parent(p)
        while q is not None:
            oq = self.over.get(q)
            if oq is not None and oq[0] == 'absent':
                return z3.BitVecVal(ABSENT, 2)
            q = parent(q)
        if p not in self.paths:
            return z3.BitVecVal(ABSENT, 2)
        return self.sym_kind(self.epoch, p)

    def rkind(self, p):
        """Kind after following a final symbolic link (what stat() sees); a dangling link resolves to ABSENT."""
        k = self.kind(p)
        if p in self.links:
            return simp(z3.If(k == LINK, self.kind(self.links[p]), k))
        return k

    def havoc(self):
        """A new epoch: everything may have changed (state files keep what the code wrote unless listed as volatile)."""
        self.epoch += 1
        keep = {p: o for p, o in self.over.items() if p in self.state_files or parent(p) is not None and o[0] == 'dir' and p.endswith('.zinoma')}
        self.over = keep

    # ------------------------------------------------------------------ queries
    def path_query(self, I, path, method, node):
        k = self.rkind(path)       # Path::{exists,is_file,is_dir,metadata} follow links
        if method == 'exists':
            return simp(k != ABSENT)
        if method == 'is_file':
            return simp(k == FILE)
        if method == 'is_dir':
            return simp(k == DIR)
        if method == 'is_symlink':
            return simp(self.kind(path) == LINK)
        if method == 'metadata':
            if I.branch(simp(k == ABSENT)):
                return err(Opaque('IoError', msg='not found', kind=REnum('ErrorKind', 'NotFound')))
            return ok(Opaque('Metadata', path=path))
        if method == 'symlink_metadata':
            if I.branch(simp(self.kind(path) == ABSENT)):
                return err(Opaque('IoError', msg='not found', kind=REnum('ErrorKind', 'NotFound')))
            return ok(Opaque('Metadata', path=path, nofollow=True))
        raise Unsupported('path query %s' % method, node)

    def mtime(self, p):
        """Modification time seen through the path (links followed)."""
        tl = self.through_link(p)
        if tl is not None:
            return self.mtime(tl[1])
        o = self.over.get(p)
        if o is not None and o[0] == 'file':
            return o[1]
        own = self.sym_mtime(self.epoch, p)
        if p in self.links:
            return simp(z3.If(self.kind(p) == LINK, self.mtime(self.links[p]), own))
        return own

    def chunks(self, p):
        tl = self.through_link(p)
        if tl is not None:
            return self.chunks(tl[1])
        o = self.over.get(p)
        if o is not None and o[0] == 'file':
            return o[2]
        own = [self.sym_chunk(self.epoch, p, j) for j in range(self.nchunks)]
        if p in self.links:
            tgt = self.chunks(self.links[p])
            kl = self.kind(p)
            return [simp(z3.If(kl == LINK, t, o_)) for t, o_ in zip(tgt, own)]
        return own

    # ------------------------------------------------------------------ library calls
    def call_path(self, I, name, args, node):
        last2 = '::'.join(name.split('::')[-2:])
        if last2 == 'File::open':
            path = I.deref(args[0])
            if path in self.state_files or any(path == sf for sf in self.state_files):
                k = self.kind(path)
                if I.branch(simp(k != FILE)):
                    return err(Opaque('IoError', msg='open failed', kind=REnum('ErrorKind', 'NotFound')))
                return ok(Opaque('StdFile', path=path))
            k = self.rkind(path)
            if I.branch(simp(k != FILE)):
                return err(Opaque('IoError', msg='open failed', kind=REnum('ErrorKind', 'NotFound')))
            self.n_open += 1
            h = 'fh%d' % self.n_open
            self.read_pos[h] = 0
            return ok(Opaque('File', path=path, handle=h))
        if last2 == 'File::create':
            path = I.deref(args[0])
            par = parent(path)
            if I.branch(simp(self.kind(par) != DIR)):
                I.effect('fs', op='create_failed', path=path)
                return err(Opaque('IoError', msg='create failed', kind=REnum('ErrorKind', 'NotFound')))
            self.mutation_point(I, 'create ' + path)
            I.effect('fs', op='create', path=path)
            self.over[path] = ('state', 'empty')
            return ok(Opaque('StdFile', path=path))
        if last2 in ('fs::metadata', 'fs::symlink_metadata'):
            return self.path_query(I, I.deref(args[0]), last2.split('::')[1], node)
        if last2 == 'BufReader::new':
            return args[0]
        if last2 == 'fs::remove_file':
            path = I.deref(args[0])
            tl = self.through_link(path)
            I.effect('fs', op='remove_file', path=path, real=(tl[1] if tl else path))
            kp = self.kind(path)        # unlink removes a regular file or the link itself (never what the link points to)
            if I.branch(simp(z3.Not(z3.Or(kp == FILE, kp == LINK)))):
                return err(Opaque('IoError', msg='remove failed', kind=REnum('ErrorKind', 'NotFound')))
            self.over[path] = ('absent',)
            self.mutation_point(I, 'removed_file ' + path)     # a death before the removal took effect = before the decision
            return ok(UNIT)
        if last2 == 'fs::rename':
            src, dst = I.deref(args[0]), I.deref(args[1])
            I.effect('fs', op='rename', path=dst, src=src)
            if I.branch(simp(self.kind(src) == ABSENT)):
                return err(Opaque('IoError', msg='rename failed', kind=REnum('ErrorKind', 'NotFound')))
            if I.branch(simp(self.kind(parent(dst)) != DIR)):
                return err(Opaque('IoError', msg='rename failed', kind=REnum('ErrorKind', 'NotFound')))
            self.mutation_point(I, 'rename ' + dst)
            self.over[dst] = self.over.get(src, ('sym', self.kind(src)))
            self.over[src] = ('absent',)
            return ok(UNIT)
        if last2 == 'fs::remove_dir_all':
            path = I.deref(args[0])
            I.effect('fs', op='remove_dir_all', path=path)
            if I.branch(simp(self.kind(path) == ABSENT)):
                return err(Opaque('IoError', msg='remove failed', kind=REnum('ErrorKind', 'NotFound')))
            self.over[path] = ('absent',)
            return ok(UNIT)
        if last2 == 'fs::create_dir':
            path = I.deref(args[0])
            I.effect('fs', op='create_dir', path=path)
            if I.branch(simp(self.kind(path) != ABSENT)):
                return err(Opaque('IoError', msg='exists', kind=REnum('ErrorKind', 'AlreadyExists')))
            if I.branch(simp(self.kind(parent(path)) != DIR)):
                return err(Opaque('IoError', msg='no parent', kind=REnum('ErrorKind', 'NotFound')))
            self.mutation_point(I, 'create_dir ' + path)
            self.over[path] = ('dir',)
            return ok(UNIT)
        if last2 == 'bincode::serialize_into':
            f = I.deref(args[0])
            val = I.deref(args[1])
            I.effect('fs', op='write_state', path=f.get('path'))
            self.mutation_point(I, 'write_begin ' + f.get('path'))
            self.over[f.get('path')] = ('state', 'corrupt')       # a strict prefix of the encoding (assumed undecodable)
            self.mutation_point(I, 'write_partial ' + f.get('path'))
            self.over[f.get('path')] = ('state', val)
            self.mutation_point(I, 'write_complete ' + f.get('path'))
            return ok(UNIT)
        if last2 == 'bincode::deserialize_from':
            f = I.deref(args[0])
            o = self.over.get(f.get('path'))
            if o is not None and o[0] == 'state' and o[1] not in ('empty', 'corrupt'):
                return ok(o[1])
            if o is not None and o[0] == 'state':
                return err(Opaque('Error', msg='bincode: unexpected end of file / invalid data', site=0, file=''))
            pre = getattr(self, 'prior_state', None)
            if pre is not None:
                return pre(I, f.get('path'))
            return err(Opaque('Error', msg='bincode: invalid data', site=0, file=''))
        if last2 in ('DefaultOptions::new', 'bincode::options', 'bincode::config'):
            return Opaque('BincodeOptions')
        if last2 == 'SeaHasher::default' or last2 == 'SeaHasher::new':
            return Opaque('Hasher', h=Hinit)
        if last2 == 'Hasher::write':
            href = args[0]
            h = I.deref(href)
            sl = I.deref(args[1])
            self._hash_write(I, href, h, sl, node)
            return UNIT
        if last2 == 'WalkDir::new':
            return Opaque('WalkDir', root=I.deref(args[0]), filter=None)
        if last2 == 'dunce::canonicalize':
            return ok(I.deref(args[0]))
        return NotImplemented

    def _hash_write(self, I, href, h, sl, node):
        if not (isinstance(sl, Opaque) and sl.tag == 'Slice'):
            raise Unsupported('Hasher::write of %r' % (sl,), node)
        ch = sl.get('chunk')
        if ch is None:
            raise Unsupported('hashing an empty buffer slice', node)
        nh = Opaque('Hasher', h=Hstep(h.get('h'), ch))
        r = I.as_ref(href) or href
        I.store_at(r, nh)

    def call_method(self, I, ref, v, method, args, node):
        if isinstance(v, Opaque):
            t = v.tag
            if t == 'File' and method == 'read':
                bufref = args[0]
                path = v.get('path')
                h = v.get('handle')
                pos = self.read_pos.get(h, 0)
                chunks = self.chunks(path)
                r = I.as_ref(bufref) or bufref
                buf = I.load(r)
                if pos < len(chunks):
                    self.read_pos[h] = pos + 1
                    I.store_at(r, Opaque('Buffer', len=buf.get('len'), chunk=chunks[pos]))
                    return ok(7)     # a positive byte count (chunk boundaries are arbitrary: short reads)
                I.store_at(r, Opaque('Buffer', len=buf.get('len'), chunk=None))
                return ok(0)
            if t == 'BincodeOptions':
                if method in ('with_fixint_encoding', 'with_varint_encoding', 'allow_trailing_bytes', 'reject_trailing_bytes', 'with_limit', 'with_no_limit',
                              'with_little_endian', 'with_big_endian'):
                    if method in ('with_varint_encoding', 'reject_trailing_bytes', 'with_big_endian'):
                        # a different wire format than the writer's: records written by serialize_into would not decode
                        return Opaque('BincodeOptions', incompatible=True)
                    return v
                if method == 'deserialize_from':
                    if v.get('incompatible'):
                        return err(Opaque('Error', msg='bincode: invalid data', site=0, file=''))
                    return self.call_path(I, 'bincode::deserialize_from', args, node)
                if method == 'serialize_into':
                    return self.call_path(I, 'bincode::serialize_into', args, node)
            if t == 'StdFile' and method == 'metadata':
                return ok(Opaque('Metadata', path=v.get('path')))
            if t == 'Hasher':
                if method == 'finish':
                    return Hfin(v.get('h'))
                if method == 'write':
                    self._hash_write(I, ref, v, I.deref(args[0]), node)
                    return UNIT
            if t == 'Metadata':
                p = v.get('path')
                if method == 'modified':
                    return ok(Opaque('SystemTime', t=self.mtime(p)))
                kk = self.kind(p) if v.get('nofollow') else self.rkind(p)
                if method == 'is_file':
                    return simp(kk == FILE)
                if method == 'is_dir':
                    return simp(kk == DIR)
                if method == 'is_symlink':
                    return simp(kk == LINK)
                if method == 'file_type':
                    return Opaque('FileType', path=p, follow=not v.get('nofollow'))
                if method == 'len':
                    return 0
            if t == 'WalkDir':
                if method in ('into_iter',):
                    return Opaque('WalkIter', root=v.get('root'), filter=None, follow=v.get('follow', False))
                if method == 'follow_links':
                    return Opaque('WalkDir', root=v.get('root'), filter=None, follow=I.deref(args[0]))
                if method in ('min_depth', 'max_depth', 'sort_by_file_name', 'same_file_system', 'contents_first'):
                    raise Unsupported('WalkDir::%s changes the traversal contract' % method, node)
            if t == 'WalkIter':
                if method == 'filter_entry':
                    return Opaque('WalkIter', root=v.get('root'), filter=args[0], follow=v.get('follow', False))
                items = self.walk(I, v.get('root'), v.get('filter'), node, follow=v.get('follow', False))
                return I.lib.m_iter(ref, I.lib.mk_iter(items), method, args, node)
            if t == 'DirEntry':
                if method == 'file_name':
                    return v.get('path').rstrip('/').split('/')[-1]
                if method in ('into_path', 'path'):
                    return v.get('path')
                if method == 'depth':
                    return v.get('depth')
                if method == 'file_type':
                    return Opaque('FileType', path=v.get('path'), follow=v.get('follow', False))
                if method == 'metadata':
                    # walkdir: DirEntry::metadata follows the link only when the walk does
                    return ok(Opaque('Metadata', path=v.get('path'), nofollow=not v.get('follow', False)))
                if method == 'path_is_symlink':
                    return simp(self.kind(v.get('path')) == LINK)
            if t == 'FileType':
                # DirEntry::file_type does not follow links unless the walk does
                k = self.rkind(v.get('path')) if v.get('follow') else self.kind(v.get('path'))
                if method == 'is_file':
                    return simp(k == FILE)
                if method == 'is_dir':
                    return simp(k == DIR)
                if method == 'is_symlink':
                    return simp(k == LINK)
            if t == 'Stream' and method in ('buffer_unordered', 'buffered', 'fuse'):
                return v
            if t == 'Stream' and method == 'next':
                items = list(v.get('items'))
                while items:
                    g, x = items.pop(0)
                    if g is not True and not I.branch(g):
                        continue
                    I.store_at(ref, Opaque('Stream', items=tuple(items)))
                    return some(I.await_value(x, node))
                I.store_at(ref, Opaque('Stream', items=()))
                return NONE
            if t == 'Output':
                pass
        if isinstance(v, str) and method in ('exists', 'is_file', 'is_dir', 'is_symlink', 'metadata', 'symlink_metadata'):
            return self.path_query(I, v, method, node)
        return NotImplemented

    def walk(self, I, root, filt, node, follow=False):
        """walkdir contract: pre-order; the root is yielded first (depth 0) even when it is a file; a missing root
        yields one Err; filter_entry(false) on a directory prunes its subtree; symlinks are not followed."""
        items = []
        rk = self.kind(root)
        if root not in self.paths and root not in self.always_dirs:
            return [(True, err(Opaque('WalkError', path=root)))]
        items.append((simp(rk == ABSENT), err(Opaque('WalkError', path=root))))

        def children(p):
            kids = sorted(c for c in self.paths if parent(c) == p)
            tl = self.through_link(p)
            real = tl[1] if tl else (self.links.get(p) if p in self.links else None)
            if real is not None:
                # p is (below) a link: its children are those of the directory it points to, named through the link
                kids = sorted(p.rstrip('/') + c[len(real.rstrip('/')):] for c in self.paths if parent(c) == real)
            return kids

        def rec(p, depth, guard):
            e = Opaque('DirEntry', path=p, depth=depth, follow=follow)
            g = guard
            if filt is not None:
                keep = I.deref(I.call_value(filt, [e], node))
                if keep is False:
                    return
                if keep is not True:
                    g = b_and(g, keep)
            items.append((g, ok(e)))
            descend = simp(self.kind(p) == DIR)
            if p in self.links or self.through_link(p) is not None:
                # walkdir follows a link only when asked to -- except for the root of the walk, which is always followed
                descend = simp(z3.Or(self.kind(p) == DIR, z3.And(self.kind(p) == LINK, self.rkind(p) == DIR, z3.BoolVal(bool(follow) or depth == 0))))
            for c in children(p):
                rec(c, depth + 1, b_and(g, descend, simp(self.kind(c) != ABSENT)))
        rec(root, 0, simp(rk != ABSENT))
        return items

    # ------------------------------------------------------------------ commands
    def cmd_output(self, I, cmd, node):
        script = cmd.get('args')[-1] if cmd.get('args') else ''
        d = cmd.get('dir')
        I.effect('cmd_output', dir=d, cmd=script)
        key = 'e%d_%s_%s' % (self.epoch, d, script)
        if I.branch(z3.Bool('cmd_io_err_' + key)):
            return err(Opaque('IoError', msg='cannot run', kind=REnum('ErrorKind', 'Other')))
        status = Opaque('ExitStatus', success=z3.Bool('cmd_ok_' + key))
        return ok(Opaque('Output', status=status, stdout=Opaque('SymStr', id=z3.BitVec('cmd_out_' + key, 32)), stderr=Opaque('SymStr', id=z3.BitVecVal(0, 32))))

    def select2(self, I, f, node):
        # futures::future::select of two side-effect-free comparisons: which one completes first does not change
        # the values they produce; the left one is taken first (stated assumption: both operands only read)
        first_left = True
        a, b = f.get('a'), f.get('b')
        if first_left:
            return REnum('Either', 'Left', {0: RTuple((I.await_value(a, node), b))})
        return REnum('Either', 'Right', {0: RTuple((I.await_value(b, node), a))})

    # processes / channels are not part of these queries
    def new_channel(self, I, cap, node):
        raise Unsupported('channel in file-system world', node)

    def spawn_task(self, I, fut, node):
        raise Unsupported('task spawn in file-system world', node)

    def send(self, I, chan, msg, node):
        raise Unsupported('send in file-system world', node)
