"""LOCAL: bounded model checking of ONE target actor (plus its build future and processes) in an open
environment: at every step the environment may deliver any message of the universe (subject to stated
assumptions), a termination, a file-change notification, or let the process exit.  Cheap (one actor), so
deeper histories than SYS; the monitors are purely observational (messages in / messages and processes out)."""
import z3

from .actors import ActorModel, tname
from .monitors import sat_inc
from .prog import Unsupported
from .sysbmc import BuildFuture, Compiled, F, Obs, Q, System, T, find_fuse, ite_state, zb


class LocalSystem(System):
    def __init__(self, prog, kind, watch, ndeps=2, nreq=2):
        self.prog = prog
        self.kind = kind
        self.watch = watch
        # universe: t0..t{ndeps-1} potential dependencies, me = t{ndeps}, requesters ROOT + t{ndeps+1}..
        self.me = ndeps
        self.n = ndeps + 1 + (nreq - 1)
        self.kinds = [None] * self.n
        self.kinds[self.me] = kind
        self.dep = [[z3.Bool('dep_%d_%d' % (i, j)) for j in range(i)] for i in range(self.n)]
        self.root = [z3.Bool('root_%d' % i) for i in range(self.n)]
        self.dup = z3.Bool('dupdep_%d' % self.me)
        am = ActorModel(prog, kind, self.me, self.n, watch, dep_syms=self.dep[self.me], dup_sym=self.dup).build()
        self.actors = [None] * self.n
        self.actors[self.me] = am
        self.bfs = {self.me: BuildFuture(prog, am)} if kind == 'build' else {}
        self.main = None
        self._compile_local()

    def _compile_local(self):
        i = self.me
        am = self.actors[i]
        d = {}
        for role, ai in am.arm_roles.items():
            ps = am.co.steps.get(ai, [])
            for p in ps:
                if p.outcome == 'suspend':
                    raise Unsupported('actor suspends outside its select')
            d[role] = Compiled(ps)
        d['init'] = Compiled(am.co.init)
        self.c_actor = [None] * self.n
        self.c_actor[i] = d
        self.c_bf = {}
        for j, bf in self.bfs.items():
            dd = {'first': Compiled(bf.sc.first)}
            for ni, node in enumerate(bf.nodes):
                for key, sums in node.edges.items():
                    dd[(ni, key)] = Compiled(sums)
            self.c_bf[j] = dd
        self.fuse = {}
        for j in self.bfs:
            fs = find_fuse(am.co.tmpl, 'a%d' % j)
            if len(fs) != 1:
                raise Unsupported('could not locate the build fuse')
            self.fuse[j] = fs[0]
        self.msg_code = [None] * self.n
        self.msg_code[i] = {label: idx for idx, (label, mk) in enumerate(am.msgs)}

    def _sym_consts(self):
        d = {}
        for j in range(self.me):
            d['dep_%d_%d' % (self.me, j)] = self.dep[self.me][j]
        d['watcher_fails#0'] = F
        d['dupdep_%d' % self.me] = self.dup
        return d

    def _relay(self, S, label, flag, obs, g):
        return S      # open environment: emitted messages are only observed

    def initial(self):
        S = {'overflow': F, 'panic': F, 'badmsg': F}
        i = self.me
        am = self.actors[i]
        S['launched.%d' % i] = T
        S['alive.%d' % i] = T
        S['term.%d' % i] = F
        S['inval.%d' % i] = F
        S['cancel.%d' % i] = F
        S['bf.%d' % i] = z3.BitVecVal(0, 3)
        S['proc.%d' % i] = F
        S['hang.%d' % i] = z3.Bool('hang_%d' % i)
        S['main.phase'] = z3.BitVecVal(0, 3)
        for n, c in am.co.inst.slots:
            S[n] = F if z3.is_bool(c) else z3.BitVecVal(0, c.size())
        S = self._launch(S, i)
        return S, Obs(self.n)

    def alternatives(self, S, k):
        alts = []
        i = self.me
        am = self.actors[i]
        ca = self.c_actor[i]
        live = S['alive.%d' % i]
        # environment delivers an arbitrary message
        code = z3.BitVec('env_sel', am.sel_w)
        flag = z3.Bool('env_actual')
        self.oracles.setdefault(k, {})[('env', 'env_sel')] = code
        self.oracles.setdefault(k, {})[('env', 'env_actual')] = flag
        obs = Obs(self.n)
        m = self._actor_mapping(S, i, k, {'ev_sel': code, 'ev_actual': flag})
        comp = ca['inbox']
        m = self.fresh_oracles(comp, k, 'a%d' % i, m)
        S2 = self._apply_actor_paths(S, i, comp.apply(m), obs, T)
        valid = z3.ULT(code, z3.BitVecVal(len(am.msgs), am.sel_w)) if len(am.msgs) < (1 << am.sel_w) else T
        allowed = []
        for label, idx in self.msg_code[i].items():
            obs.add('recv', (i, label), code == idx, flag)
            allowed.append(z3.And(code == idx, self.env_allows(label)))
        alts.append((('inbox', i), z3.And(live, valid, z3.Or(allowed)), S2, obs))
        if 'term' in ca:
            obs = Obs(self.n)
            comp = ca['term']
            mm = self.fresh_oracles(comp, k, 'a%d' % i, self._actor_mapping(S, i, k))
            S2 = self._apply_actor_paths(S, i, comp.apply(mm), obs, T)
            obs.add('term', i, T)
            alts.append((('term', i), live, S2, obs))
        if 'inval' in ca and self.watch:
            obs = Obs(self.n)
            comp = ca['inval']
            mm = self.fresh_oracles(comp, k, 'a%d' % i, self._actor_mapping(S, i, k))
            S2 = self._apply_actor_paths(S, i, comp.apply(mm), obs, T)
            obs.add('handle_inval', i, T)
            alts.append((('inval', i), live, S2, obs))
        if i in self.bfs:
            slot, active_idx, nalts = self.fuse[i]
            active = S[slot] == active_idx
            obs = Obs(self.n)
            S2 = self._bf_step(S, i, k, 'first', obs)
            alts.append((('bf_start', i), z3.And(live, active, S['bf.%d' % i] == 0), S2, obs))
            for ni, node in enumerate(self.bfs[i].nodes):
                for key in node.edges:
                    obs = Obs(self.n)
                    S1 = dict(S)
                    if key == 'cancel':
                        en = z3.And(live, active, S['bf.%d' % i] == ni + 1, S['cancel.%d' % i])
                        S1['cancel.%d' % i] = F
                    else:
                        en = z3.And(live, active, S['bf.%d' % i] == ni + 1, S['proc.%d' % i], z3.Not(S['hang.%d' % i]))
                        S1['proc.%d' % i] = F
                        obs.add('proc_exit', i, T)
                    S2 = self._bf_step(S1, i, k, (ni, key), obs)
                    alts.append((('bf_' + key, i), en, S2, obs))
        return alts

    def env_allows(self, label):
        """Environment assumptions (each is a guarantee checked on the other side):
        only declared dependencies send Ok/Invalidated; nobody sends Unrequested; no Invalidated without --watch."""
        variant, kind, who = label
        if variant == 'Unrequested':
            return F
        if variant in ('Ok', 'Invalidated'):
            j = int(who[1:])
            if j >= self.me:
                return F
            if variant == 'Invalidated' and not self.watch:
                return F
            return self.dep[self.me][j]
        if who != 'ROOT' and int(who[1:]) <= self.me:
            return F
        return T

    def step_template(self, monitor=None):
        t = super().step_template(monitor)
        return t


class LocalMonitor:
    """Observational contract monitors of one actor."""

    def __init__(self, watch):
        self.watch = watch

    def init(self, sysm, S, obs):
        g = {}
        me = sysm.me
        for d in range(me):
            for kind in ('Build', 'Service'):
                g['word.%d.%s' % (d, kind)] = F
        reqs = ['ROOT'] + ['t%d' % j for j in range(me + 1, sysm.n)]
        for kind in ('Build', 'Service'):
            g['acked.%s' % kind] = F        # emitted Ok{kind, actual} more recently than Invalidated{kind}
            for r in reqs:
                g['seen.%s.%s' % (kind, r)] = F
        g['bad_decide'] = F
        g['late_unanswered'] = F
        g['ndecide'] = z3.BitVecVal(0, 2)
        g['double_proc'] = F
        g['ok_on_fail'] = F
        g['ok_without_cause'] = F
        g['requested_non_dependency'] = F
        g['misdirected_ok'] = F
        g['inval_pending'] = F
        g['wrong_actual'] = F
        g['reports_on_another_target'] = F   # an Ok / Invalidated whose subject is not the emitting target itself
        g['proc_left_at_exit'] = F    # the actor returned while a process it spawned was still running (nobody is left to stop it)
        g['told_ok'] = F              # the last announcement about itself that the target emitted (own kind) was Ok, not Invalidated
        g['failed_while_acknowledged'] = F   # C07: an execution failed while the target's last announcement to its requesters was Ok (no Invalidated since)
        g['attempted'] = F            # decided to start / tried to spawn at least once
        g['idle_although_ready'] = F  # C04 (state predicate, not sticky): one-shot, the target is wanted, every dependency's last word is Ok, and it has neither started nor acknowledged
        g['withheld_request'] = F     # C17: the target is wanted, and a declared dependency has not been asked for anything (its start waits for somebody else's message)
        for d in range(me):
            for kind in ('Build', 'Service'):
                g['reqsent.%d.%s' % (d, kind)] = F
        g['env_inconsistent'] = F     # the environment changed the `actual` flag of a (dependency, kind) between two Ok messages
        for d in range(me):
            for kind in ('Build', 'Service'):
                g['act.%d.%s' % (d, kind)] = F
                g['actset.%d.%s' % (d, kind)] = F
        return g

    def step(self, sysm, S, obs, S2, g, k):
        me = sysm.me
        kindme = sysm.kind
        mename = 't%d' % me
        g2 = dict(g)
        reqs = ['ROOT'] + ['t%d' % j for j in range(me + 1, sysm.n)]
        # words
        word = {}
        for d in range(me):
            for kind in ('Build', 'Service'):
                w = g['word.%d.%s' % (d, kind)]
                ok_ = obs.get('recv', (me, ('Ok', kind, 't%d' % d)))
                inv = obs.get('recv', (me, ('Invalidated', kind, 't%d' % d)))
                word[(d, kind)] = z3.If(ok_, T, z3.If(inv, F, w))
                g2['word.%d.%s' % (d, kind)] = word[(d, kind)]
        foreign = obs.any('emit', lambda key: key[0] == me and key[2][0] in ('Ok', 'Invalidated') and key[2][2] != mename)
        g2['reports_on_another_target'] = z3.Or(g['reports_on_another_target'], foreign)
        sp = obs.get('spawn', me)
        if kindme != 'aggregate':
            g2['proc_left_at_exit'] = z3.Or(g['proc_left_at_exit'], z3.And(z3.Not(S2['alive.%d' % me]), S2['proc.%d' % me]))
        decide = obs.get('decide', me) if kindme == 'build' else sp
        wbad = z3.Or([z3.And(sysm.dep[me][d], z3.Not(word[(d, kind)])) for d in range(me) for kind in ('Build', 'Service')] + [F])
        if kindme != 'aggregate':
            g2['bad_decide'] = z3.Or(g['bad_decide'], z3.And(decide, wbad))
            g2['ndecide'] = sat_inc(g['ndecide'], decide)
            g2['double_proc'] = z3.Or(g['double_proc'], z3.And(sp, S['proc.%d' % me], z3.Not(obs.get('reap', me))))
        # acknowledgements
        for kind in ('Build', 'Service'):
            emits_ok = obs.any('emit', lambda key, kind=kind: key[0] == me and key[2] == ('Ok', kind, mename))
            emits_inv = obs.any('emit', lambda key, kind=kind: key[0] == me and key[2] == ('Invalidated', kind, mename))
            # "acknowledging" emission: Ok to every known requester or in reply
            own = (kindme == 'build' and kind == 'Build') or (kindme == 'service' and kind == 'Service') or kindme == 'aggregate'
            if own:
                # a requester that registers while the target is acknowledged must be answered in the same step
                for r in reqs:
                    got = obs.get('recv', (me, ('Requested', kind, r)))
                    new = z3.And(got, z3.Not(g['seen.%s.%s' % (kind, r)]))
                    answered = obs.get('emit', (me, r, ('Ok', kind, mename)))
                    g2['late_unanswered'] = z3.Or(g2['late_unanswered'], z3.And(new, g['acked.%s' % kind], z3.Not(answered)))
                    g2['seen.%s.%s' % (kind, r)] = z3.Or(g['seen.%s.%s' % (kind, r)], got)
                    # an Ok only goes to somebody who asked
                    mis = z3.And(answered, z3.Not(z3.Or(g['seen.%s.%s' % (kind, r)], got)))
                    g2['misdirected_ok'] = z3.Or(g2['misdirected_ok'], mis)
                invalidating = z3.Or(emits_inv, obs.get('handle_inval', me)) if kindme != 'aggregate' else emits_inv
                # which incoming out-of-date notices take the acknowledgement back: a finished build is not undone by a
                # restarting service dependency; a service restarts on any; an aggregate mirrors each kind separately
                kks = ('Build',) if kindme == 'build' else (('Build', 'Service') if kindme == 'service' else (kind,))
                inval_in = z3.Or([obs.get('recv', (me, ('Invalidated', kk, 't%d' % d))) for d in range(me) for kk in kks] + [F])
                g2['acked.%s' % kind] = z3.If(z3.Or(invalidating, inval_in), F, z3.If(emits_ok, T, g['acked.%s' % kind]))
                if kindme == 'aggregate':
                    # the aggregate acknowledges only when every dependency's last word for that kind is Ok
                    kbad = z3.Or([z3.And(sysm.dep[me][d], z3.Not(word[(d, kind)])) for d in range(me)] + [F])
                    g2['ok_without_cause'] = z3.Or(g2['ok_without_cause'], z3.And(emits_ok, kbad))
        if kindme == 'build':
            res_ok = z3.Or(obs.get('build_result', (me, 0)), obs.get('build_result', (me, 1)))
            emits_okb = obs.any('emit', lambda key: key[0] == me and key[2] == ('Ok', 'Build', mename) and True)
            # Ok{Build, actual} is only caused by a successful result or by a late requester of an acknowledged target
            anyreq = z3.Or([obs.get('recv', (me, ('Requested', 'Build', r))) for r in reqs])
            g2['ok_without_cause'] = z3.Or(g2['ok_without_cause'], z3.And(emits_okb, z3.Not(res_ok), z3.Not(z3.And(anyreq, g['acked.Build']))))
            res_err = obs.get('build_result', (me, 3))
            g2['ok_on_fail'] = z3.Or(g['ok_on_fail'], z3.And(res_err, emits_okb))
            # a result produced by a run that was invalidated in flight must not be acknowledged (watch)
            inval_now = z3.Or([obs.get('recv', (me, ('Invalidated', 'Build', 't%d' % d))) for d in range(me)] + [obs.get('handle_inval', me)])
            g2['inval_pending'] = z3.If(decide, F, z3.If(inval_now, T, g['inval_pending']))
            g2['ok_without_cause'] = z3.Or(g2['ok_without_cause'], z3.And(res_ok, emits_okb, g['inval_pending'], z3.Not(inval_now)))
        # assumption on the environment: a dependency's `actual` flag for a kind never changes (guaranteed on the sender
        # side: builds/services emit a constant flag per kind -- checked below --, aggregates by induction)
        for d in range(me):
            for kind in ('Build', 'Service'):
                gfl = obs.ev.get('recv', {}).get((me, ('Ok', kind, 't%d' % d)))
                if gfl is not None and gfl[1] is not None:
                    g2['env_inconsistent'] = z3.Or(g2['env_inconsistent'], z3.And(gfl[0], g['actset.%d.%s' % (d, kind)], gfl[1] != g['act.%d.%s' % (d, kind)]))
                    g2['actset.%d.%s' % (d, kind)] = z3.Or(g['actset.%d.%s' % (d, kind)], gfl[0])
        if kindme in ('build', 'service'):
            own = 'Build' if kindme == 'build' else 'Service'
            for key, (gg, fl) in obs.ev.get('emit', {}).items():
                if key[0] == me and key[2][0] == 'Ok' and key[2][2] == mename and fl is not None:
                    g2['wrong_actual'] = z3.Or(g2['wrong_actual'], z3.And(gg, fl != z3.BoolVal(key[2][1] == own)))
        if kindme == 'aggregate':
            # `actual` of an aggregate acknowledgement = some dependency acknowledged that kind with actual
            for kind in ('Build', 'Service'):
                acts = []
                for d in range(me):
                    key = (me, ('Ok', kind, 't%d' % d))
                    gfl = obs.ev.get('recv', {}).get(key)
                    cur = g['act.%d.%s' % (d, kind)]
                    if gfl is not None and gfl[1] is not None:
                        cur = z3.If(gfl[0], gfl[1], cur)
                    inv = obs.get('recv', (me, ('Invalidated', kind, 't%d' % d)))
                    g2['act.%d.%s' % (d, kind)] = cur
                    acts.append(z3.And(sysm.dep[me][d], cur))
                want = z3.Or(acts + [F])
                for key, (gg, fl) in obs.ev.get('emit', {}).items():
                    if key[0] == me and key[2] == ('Ok', kind, mename) and fl is not None:
                        g2['wrong_actual'] = z3.Or(g2['wrong_actual'], z3.And(gg, fl != want))
        # C17: once somebody wants the target, every declared dependency has been asked (the actor is idle between steps, so
        # a dependency that has not been asked by now can only be asked in reaction to a message from somebody else)
        own_kinds = {'build': ('Build',), 'service': ('Service',), 'aggregate': ('Build', 'Service')}[kindme]
        for kind in own_kinds:
            wanted = z3.Or([g2['seen.%s.%s' % (kind, r)] for r in reqs])
            for d in range(me):
                sent = {}
                for kk in ('Build', 'Service'):
                    rq = obs.get('emit', (me, 't%d' % d, ('Requested', kk, mename)))
                    un = obs.get('emit', (me, 't%d' % d, ('Unrequested', kk, mename)))
                    sent[kk] = z3.If(rq, T, z3.If(un, F, g['reqsent.%d.%s' % (d, kk)]))
                    g2['reqsent.%d.%s' % (d, kk)] = sent[kk]
                asked = sent[kind] if kindme == 'aggregate' else z3.Or(sent['Build'], sent['Service'])
                g2['withheld_request'] = z3.Or(g2['withheld_request'], z3.And(S2['alive.%d' % me], wanted, sysm.dep[me][d], z3.Not(asked)))
        if kindme != 'aggregate':
            ownk = 'Build' if kindme == 'build' else 'Service'
            failed_now = z3.Or(obs.get('build_result', (me, 3)), obs.get('spawn_failed', me), obs.any('emit_err'))
            e_ok = obs.any('emit', lambda key: key[0] == me and key[2] == ('Ok', ownk, mename))
            e_inv = obs.any('emit', lambda key: key[0] == me and key[2] == ('Invalidated', ownk, mename))
            g2['told_ok'] = z3.If(e_inv, F, z3.If(e_ok, T, g['told_ok']))
            # (an Ok emitted in the very step of the failure is ok_on_fail's business)
            g2['failed_while_acknowledged'] = z3.Or(g['failed_while_acknowledged'], z3.And(failed_now, g['told_ok'], z3.Not(e_inv)))
            g2['attempted'] = z3.Or(g['attempted'], decide, obs.get('spawn_failed', me))
        if not self.watch:
            alive2 = S2['alive.%d' % me]
            idle = []
            for kind in own_kinds:
                wanted = z3.Or([g2['seen.%s.%s' % (kind, r)] for r in reqs])
                if kindme == 'aggregate':
                    allok = z3.And([z3.Implies(sysm.dep[me][d], word[(d, kind)]) for d in range(me)] + [T])
                    idle.append(z3.And(alive2, wanted, allok, z3.Not(g2['acked.%s' % kind])))
                else:
                    allok = z3.And([z3.Implies(sysm.dep[me][d], z3.And(word[(d, 'Build')], word[(d, 'Service')])) for d in range(me)] + [T])
                    idle.append(z3.And(alive2, wanted, allok, z3.Not(g2['attempted'])))
            g2['idle_although_ready'] = z3.Or(idle + [F])
        # requests only go to declared dependencies
        for d in range(sysm.n):
            if d == me:
                continue
            for kind in ('Build', 'Service'):
                rq = obs.get('emit', (me, 't%d' % d, ('Requested', kind, mename)))
                isdep = sysm.dep[me][d] if d < me else F
                g2['requested_non_dependency'] = z3.Or(g2['requested_non_dependency'], z3.And(rq, z3.Not(isdep)))
        return g2
