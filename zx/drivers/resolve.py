"""Resolver family (C09 C13 C19, C14 project graph, C18 path injectivity): the real config::ir / config::yaml /
domain code executed over project descriptions whose references are present or absent by symbolic bits."""
import itertools
import time

import z3

from ..interp import Frame, Interp
from ..prog import Program, Unsupported
from ..values import NONE, UNIT, Opaque, REnum, RMap, RSet, RStruct, RTuple, RVec, Union, b_and, b_not, b_or, err, key_of, ok, simp, some
from ..vfsworld import VfsWorld


class Shape:
    """A family of projects: targets with kinds, candidate references guarded by bits, candidate requested names."""

    def __init__(self, name, root_name, projects, refs, requests, imports=None):
        self.name = name
        self.imports = imports            # {project: [projects it imports]}; None = the root imports every other project
        self.root_name = root_name          # None or 'r'
        self.projects = projects            # {project name (None for unnamed root): {'dir': '/r', 'targets': {tname: kind}}}
        self.refs = refs                    # list of (project, target, 'dep'|'out', text)
        self.requests = requests            # list of CLI spellings
        self.bits = [z3.Bool('ref_%d' % i) for i in range(len(refs))]
        self.req_bits = [z3.Bool('req_%d' % i) for i in range(len(requests))]

    # -------- reference semantics (oracle) --------
    def resolve(self, project, text):
        """Name resolution rule of the documentation: bare = same project; p::t = project p. Returns ('ok', (proj, t)) | ('unknown',) | ('malformed',)."""
        parts = text.split('::')
        if len(parts) == 1:
            pj, t = project, parts[0]
        elif len(parts) == 2:
            pj, t = parts
        else:
            return ('malformed',)
        if pj not in self.projects:
            return ('unknown',)
        if t not in self.projects[pj]['targets']:
            return ('unknown',)
        return ('ok', (pj, t))

    def import_map(self, pj):
        """{imported project name: path relative to pj's directory} as written in pj's zinoma.yml."""
        import os
        if self.imports is None:
            others = [o for o in self.projects if o != pj] if pj == self.root_name else []
        else:
            others = self.imports.get(pj, [])
        return {o: os.path.relpath(self.projects[o]['dir'], self.projects[pj]['dir']) for o in others}

    def all_targets(self):
        return [(pj, t) for pj, d in self.projects.items() for t in d['targets']]

    def oracle(self):
        """z3 terms over the bits: error (Bool), reach[(pj,t)] (Bool), deps[(pj,t)] = {(pj2,t2): Bool}, outs likewise."""
        T = self.all_targets()
        edge = {u: {v: z3.BoolVal(False) for v in T} for u in T}
        outedge = {u: {v: z3.BoolVal(False) for v in T} for u in T}
        bad = {u: z3.BoolVal(False) for u in T}
        for bit, (pj, t, kind, text) in zip(self.bits, self.refs):
            u = (pj, t)
            if kind == 'out':
                if self.projects[pj]['targets'][t] == 'aggregate':
                    continue   # aggregates declare no input
                import re
                m = re.match(r'^((\w[-\w]*::)?\w[-\w]*)\.output$', text)
                if not m:
                    bad[u] = z3.Or(bad[u], bit)
                    continue
                r = self.resolve(pj, m.group(1))
            else:
                r = self.resolve(pj, text)
            if r[0] != 'ok':
                bad[u] = z3.Or(bad[u], bit)
                continue
            v = r[1]
            edge[u][v] = z3.Or(edge[u][v], bit)
            if kind == 'out':
                outedge[u][v] = z3.Or(outedge[u][v], bit)
                if self.projects[v[0]]['targets'][v[1]] != 'build':
                    bad[u] = z3.Or(bad[u], bit)
        # requested
        root = {u: z3.BoolVal(False) for u in T}
        badreq = z3.BoolVal(False)
        for bit, text in zip(self.req_bits, self.requests):
            r = self.resolve(self.root_name, text)
            if r[0] == 'ok':
                root[r[1]] = z3.Or(root[r[1]], bit)
            else:
                badreq = z3.Or(badreq, bit)
        reach = dict(root)
        for _ in range(len(T)):
            reach = {v: z3.Or([reach[v]] + [z3.And(reach[u], edge[u][v]) for u in T]) for v in T}
        tc = {u: dict(edge[u]) for u in T}
        for k in T:
            tc = {u: {v: z3.Or(tc[u][v], z3.And(tc[u][k], tc[k][v])) for v in T} for u in T}
        cyc = z3.Or([z3.And(reach[u], tc[u][u]) for u in T])
        error = z3.Or([badreq, cyc] + [z3.And(reach[u], bad[u]) for u in T])
        # effective edges: u waits for the non-aggregate v directly or through a chain of aggregates
        agg = {u for u in T if self.projects[u[0]]['targets'][u[1]] == 'aggregate'}
        eff = {u: {v: (edge[u][v] if v not in agg else z3.BoolVal(False)) for v in T} for u in T}
        for _ in range(len(agg) + 1):
            eff = {u: {v: z3.Or([eff[u][v]] + [z3.And(edge[u][m], eff[m][v]) for m in agg if m != u]) for v in T} for u in T}
        return {'error': error, 'reach': reach, 'edge': edge, 'outedge': outedge, 'eff_edge': eff}


def shapes(tier):
    s = []
    s.append(Shape('single_project_cycles_and_outputs', None,
                   {None: {'dir': '/r', 'targets': {'a': 'build', 'b': 'build', 'c': 'build'}}},
                   [(None, 'a', 'dep', 'b'), (None, 'a', 'out', 'b.output'), (None, 'b', 'dep', 'c'), (None, 'c', 'dep', 'a'), (None, 'b', 'dep', 'b'),
                    (None, 'b', 'out', 'c.output'), (None, 'c', 'dep', 'zz'), (None, 'a', 'dep', 'nope::a')],
                   ['a', 'b']))
    s.append(Shape('kinds_and_output_of_non_build', None,
                   {None: {'dir': '/r', 'targets': {'a': 'build', 's': 'service', 'g': 'aggregate', 'b': 'build'}}},
                   [(None, 'a', 'out', 's.output'), (None, 'a', 'out', 'g.output'), (None, 'a', 'out', 'b.output'), (None, 'g', 'dep', 's'), (None, 'g', 'dep', 'b'),
                    (None, 's', 'out', 'b.output'), (None, 'a', 'dep', 'g'), (None, 'b', 'dep', 'a::b::c')],
                   ['a', 'g', 's']))
    s.append(Shape('two_projects_overlapping_names', 'r',
                   # (r::a may consume the outputs of two producers with the same target name in different projects: b.output and q::b.output)
                   # (the root project has a target named like the imported project: `q` on the command line is the root target r::q)
                   {'r': {'dir': '/r', 'targets': {'a': 'build', 'b': 'build', 'q': 'build'}}, 'q': {'dir': '/q', 'targets': {'a': 'build', 'b': 'build'}}},
                   [('r', 'a', 'dep', 'b'), ('r', 'a', 'dep', 'q::b'), ('r', 'a', 'out', 'b.output'), ('q', 'a', 'dep', 'b'), ('q', 'a', 'out', 'b.output'),
                    ('r', 'a', 'out', 'q::b.output'), ('q', 'b', 'dep', 'r::q'), ('r', 'q', 'dep', 'q::zz'), ('r', 'a', 'dep', 'q::a')],
                   ['a', 'r::a', 'q::a', 'q::b', 'b', 'q']))
    s.append(Shape('nested_imports_same_target_names', 'r',
                   {'r': {'dir': '/r', 'targets': {'gen': 'build', 'all': 'aggregate'}}, 'q': {'dir': '/r/q', 'targets': {'gen': 'build', 'all': 'aggregate'}},
                    'u': {'dir': '/r/q/u', 'targets': {'gen': 'build'}}},
                   [('r', 'all', 'dep', 'gen'), ('r', 'all', 'dep', 'q::all'), ('q', 'all', 'dep', 'gen'), ('q', 'all', 'dep', 'u::gen'), ('u', 'gen', 'dep', 'q::gen')],
                   ['gen', 'q::gen', 'u::gen', 'all'], imports={'r': ['q'], 'q': ['u']}))
    if tier == 'thorough':
        s.append(Shape('unnamed_root_importing', None,
                       {None: {'dir': '/r', 'targets': {'a': 'build', 'b': 'service'}}, 'q': {'dir': '/q', 'targets': {'a': 'build', 'b': 'aggregate', 'c': 'build'}}},
                       [(None, 'a', 'dep', 'q::b'), ('q', 'b', 'dep', 'a'), ('q', 'b', 'dep', 'c'), ('q', 'a', 'out', 'c.output'), ('q', 'c', 'dep', 'b'),
                        (None, 'b', 'out', 'q::a.output'), (None, 'b', 'out', 'a.output'), ('q', 'c', 'out', 'q::a.output'), (None, 'a', 'out', 'bad name.output')],
                       ['a', 'b', 'q::b', 'q::c']))
    return s


class ResolverRun:
    def __init__(self, prog, shape):
        self.prog = prog
        self.shape = shape
        self.world = VfsWorld([], always_dirs=('/',))
        self.I = Interp(prog, self.world, stubs={}, max_paths=40000)
        from ..lib import Lib
        self.tid_ty = 'TargetId'
        self.yaml_target_ty = self._tyid(('config', 'yaml', 'schema'), 'Target')
        self.ir_config_ty = self._tyid(('config', 'ir'), 'Config')

    def _tyid(self, mod, name):
        c = self.prog.types_by_name.get(name, [])
        return '::'.join(mod + (name,)) if len(c) > 1 else name

    def yaml_project(self, pj):
        sh = self.shape
        d = sh.projects[pj]
        targets = {}
        for t, kind in d['targets'].items():
            deps = [(bit, text) for bit, (p2, t2, k, text) in zip(sh.bits, sh.refs) if p2 == pj and t2 == t and k == 'dep']
            outs = [(bit, REnum('InputResource', 'DependencyOutput', {0: text})) for bit, (p2, t2, k, text) in zip(sh.bits, sh.refs) if p2 == pj and t2 == t and k == 'out']
            depv = RStruct('Dependencies', {0: RVec(deps)})
            own_in = REnum('InputResource', 'Files', {'paths': RVec.of(['src_' + t]), 'extensions': NONE})
            own_cmd = REnum('InputResource', 'CmdStdout', {'cmd_stdout': 'cmd'})
            inp = RStruct('InputResources', {0: RVec([(True, own_in), (True, own_cmd)] + outs)})
            outp = RStruct('OutputResources', {0: RVec.of([REnum('OutputResource', 'Files', {'paths': RVec.of(['out_' + t]), 'extensions': some(RVec.of(['o', '.bin', '']))}),
                                                            REnum('OutputResource', 'CmdStdout', {'cmd_stdout': 'cmd'})])})
            if kind == 'build':
                tv = REnum(self.yaml_target_ty, 'Build', {'dependencies': depv, 'build': 'script ' + t, 'input': inp, 'output': outp})
            elif kind == 'service':
                tv = REnum(self.yaml_target_ty, 'Service', {'dependencies': depv, 'service': 'script ' + t, 'input': inp})
            else:
                tv = REnum(self.yaml_target_ty, 'Aggregate', {'dependencies': depv})
            targets[key_of(t)] = (True, t, tv)
        return RStruct('Project', {'targets': RMap(targets), 'name': NONE if pj is None else some(pj), 'imports': RMap()})

    def config(self):
        sh = self.shape
        ent = {}
        for pj, d in sh.projects.items():
            kv = NONE if pj is None else some(pj)
            ent[key_of(kv)] = (True, kv, RTuple((d['dir'], self.yaml_project(pj))))
        return RStruct(self.ir_config_ty, {'root_project_name': NONE if sh.root_name is None else some(sh.root_name), 'projects': RMap(ent)})

    def explore(self):
        I = self.I
        sh = self.shape
        parse_many = self.prog.find_fn('TargetId::try_parse_many')
        resolve_fd = self.prog.find_fn('ir::Config::try_into_domain_targets')
        listnames_fd = self.prog.find_fn('ir::Config::list_all_available_target_names')

        def init():
            self.world.reset()
            I.frames.append(Frame(None, ('config', 'ir'), None))

        def thunk():
            cfg = self.config()
            cref = I.alloc(cfg)
            from ..values import Ref
            names = I.call_fn(listnames_fd, [], self_arg=Ref(cref, ()))
            reqs = RVec([(b, t) for b, t in zip(sh.req_bits, sh.requests)])
            # the CLI passes the requested names through (clap only checks membership in the list above)
            req_concrete = RVec.of([t for g, t in I.lib._forked(reqs.items)])
            ids = I.deref(I.call_fn(parse_many, [req_concrete, cfg.fields['root_project_name']]))
            res = {'names': names, 'requested': [t for _, t in req_concrete.items], 'ids': ids}
            if ids.variant == 'Ok':
                res['result'] = I.deref(I.call_fn(resolve_fd, [ids.payload[0]], self_arg=cfg))
            return res
        I.solver.reset()
        t0 = time.time()
        paths = I.explore(thunk, init)
        self.explore_s = time.time() - t0
        return paths


def tid_key(v):
    pn = v.fields['project_name']
    return (None if pn.variant == 'None' else pn.payload[0], v.fields['target_name'])


def check_shape(arg):
    prop, idx, tier, repo = arg
    t0 = time.time()
    out = {'shape': None, 'obligations': [], 'error': None, 'paths': 0, 'functions': []}
    try:
        prog = Program(repo)
        sh = shapes(tier)[idx]
        out['shape'] = sh.name
        rr = ResolverRun(prog, sh)
        paths = rr.explore()
        out['paths'] = len(paths)
        out['functions'] = sorted(rr.I.stats['fns'])
        out['explore_s'] = round(rr.explore_s, 1)
        orc = sh.oracle()
        T = sh.all_targets()
        s = z3.Solver()
        s.set('timeout', 60000)
        # at least one requested name
        solver_s = 0.0
        results = {}

        def fail(name, p, formula, detail):
            nonlocal solver_s
            if name in results and results[name]['verdict'] == 'sat':
                return
            ts = time.time()
            s.push()
            c = p.cond()
            s.add(c if not isinstance(c, bool) else z3.BoolVal(c))
            s.add(z3.Or(sh.req_bits))
            s.add(formula)
            r = s.check()
            solver_s += time.time() - ts
            ent = results.setdefault(name, {'name': name, 'verdict': 'unsat', 'checked_paths': 0})
            ent['checked_paths'] += 1
            if r == z3.sat:
                m = s.model()
                ent['verdict'] = 'sat'
                ent['refs_present'] = [sh.refs[i] for i, b in enumerate(sh.bits) if z3.is_true(m.eval(b, model_completion=True))]
                ent['requested'] = [sh.requests[i] for i, b in enumerate(sh.req_bits) if z3.is_true(m.eval(b, model_completion=True))]
                ent['detail'] = detail
            elif r != z3.unsat and ent['verdict'] == 'unsat':
                ent['verdict'] = 'unknown'
            elif r == z3.unsat and len(out.setdefault('cross_checks', [])) < 2 and not z3.is_true(formula):
                try:
                    from .common import cross_check
                    cc = cross_check(list(s.assertions()), 'unsat', timeout_s=60)
                    cc['obligation'] = name
                    out['cross_checks'].append(cc)
                except Exception as e:   # pragma: no cover
                    out['cross_checks'].append({'obligation': name, 'error': str(e)[:200], 'agree': None, 'results': {}})
            s.pop()

        names_ob = 'C19' == prop
        for p in paths:
            if p.outcome == 'panic':
                fail('no_panic', p, z3.BoolVal(True), 'panic: %s' % (p.value,))
                continue
            if p.outcome != 'return':
                fail('no_panic', p, z3.BoolVal(True), 'unexpected %s' % p.outcome)
                continue
            v = p.value
            ids = v['ids']
            if ids.variant != 'Ok':
                fail('requested_names_parse', p, z3.BoolVal(True), 'try_parse_many failed on accepted names')
                continue
            res = v['result']
            is_err = res.variant == 'Err'
            if prop in ('C09', 'C19', 'C13'):
                # verdict: Err exactly when the reference semantics says the reachable graph is broken
                fail('rejects_exactly_broken_graphs', p, orc['error'] != z3.BoolVal(is_err), 'code says %s' % ('Err' if is_err else 'Ok'))
            if is_err:
                continue
            m = res.payload[0]
            got = {}
            for k, (g, kv, tv) in m.entries.items():
                got[tid_key(kv)] = tv
            if prop in ('C09', 'C19'):
                # What is compared is observable: which build/service targets are resolved, and which build/service targets each
                # of them waits for (directly or through aggregates). Whether an aggregate is itself an entry of the result or
                # has been flattened into its dependents is representation, not behaviour.
                kind_of = lambda u: sh.projects[u[0]]['targets'][u[1]]
                for u in T:
                    if kind_of(u) == 'aggregate':
                        continue
                    present = u in got
                    fail('resolved_set_is_the_dependency_closure', p, orc['reach'][u] != z3.BoolVal(present), 'target %s::%s %s in the result' % (u[0], u[1], 'is' if present else 'is not'))
                code_deps = {}
                for u, tv in got.items():
                    md = tv.payload[0].fields['metadata']
                    code_deps[u] = {tid_key(d) for _, d in md.fields['dependencies'].items}

                def code_eff(u, seen=()):
                    out_ = set()
                    for d in code_deps.get(u, ()):
                        if d in T and kind_of(d) == 'aggregate' and d in code_deps and d not in seen:
                            out_ |= code_eff(d, seen + (d,))
                        else:
                            out_.add(d)
                    return out_
                for u, tv in got.items():
                    md = tv.payload[0].fields['metadata']
                    if kind_of(u) != 'aggregate':
                        deps = code_eff(u)
                        for v2 in T:
                            if kind_of(v2) == 'aggregate':
                                continue
                            fail('dependencies_resolved_in_the_declaring_project', p, z3.And(orc['reach'][u], orc['eff_edge'][u][v2] != z3.BoolVal(v2 in deps)),
                                 '%s waits for %s (directly or through aggregates): %s' % (u, v2, v2 in deps))
                    if md.fields['project_dir'] != sh.projects[u[0]]['dir']:
                        fail('project_dir_of_target', p, z3.BoolVal(True), '%s has dir %s' % (u, md.fields['project_dir']))
            if prop == 'C19':
                # both spellings of a root target give the same id; requesting both yields one entry (map keys are ids)
                idl = [tid_key(x) for _, x in ids.payload[0].items]
                for text, k in zip(v['requested'], idl):
                    r = sh.resolve(sh.root_name, text)
                    if r[0] != 'ok' or r[1] != k:
                        fail('spellings_denote_the_documented_target', p, z3.BoolVal(True), '%s parsed to %s' % (text, k))
                names = set(I_vals(v['names']))
                want = set()
                for (pj, t) in T:
                    want.add(t if pj is None else '%s::%s' % (pj, t))
                    if pj == sh.root_name and pj is not None:
                        want.add(t)
                # every documented spelling is accepted (names accepted on top of these -- e.g. shorthands -- are not forbidden by the
                # property; what they resolve to is decided by the MAINRUN obligation engine_gets_exactly_the_requested_roots)
                if not want <= names:
                    fail('accepted_names', p, z3.BoolVal(True), 'accepted names %s lack %s' % (sorted(names), sorted(want - names)))
            if prop == 'C13':
                for u, tv in got.items():
                    if tv.variant == 'Aggregate':
                        continue
                    inp = tv.payload[0].fields['input']
                    files = [(tuple(I_vals(f.fields['paths'])), ext_key(f.fields['extensions'])) for _, f in inp.fields['files'].items]
                    cmds = [(c.fields['cmd'], c.fields['dir']) for _, c in inp.fields['cmds'].items]
                    own_dir = sh.projects[u[0]]['dir']
                    # expected: own resources, then for each X.output reference the outputs of X bound to X's directory
                    for v2 in T:
                        vdir = sh.projects[v2[0]]['dir']
                        exp_file = ((vdir + '/out_' + v2[1],), ('.bin', '.o'))
                        exp_cmd = ('cmd', vdir)
                        has_file = exp_file in files
                        has_cmd = exp_cmd in cmds if vdir != own_dir else (cmds.count(exp_cmd) >= 2)
                        if vdir == own_dir:
                            cond_file = orc['outedge'][u][v2]
                            fail('producer_outputs_become_consumer_inputs', p, z3.And(orc['reach'][u], cond_file != z3.BoolVal(has_file)), '%s input has %s of %s: %s' % (u, exp_file, v2, has_file))
                        else:
                            fail('producer_outputs_become_consumer_inputs', p, z3.And(orc['reach'][u], orc['outedge'][u][v2] != z3.BoolVal(has_file)), '%s input has %s of %s: %s' % (u, exp_file, v2, has_file))
                            anyout = z3.Or([orc['outedge'][u][w] for w in T if sh.projects[w[0]]['dir'] == vdir])
                            fail('inherited_commands_run_in_the_producer_directory', p, z3.And(orc['reach'][u], anyout != z3.BoolVal(exp_cmd in cmds)), '%s cmds %s' % (u, cmds))
                    if ((own_dir + '/src_' + u[1],), None) not in files or ('cmd', own_dir) not in cmds:
                        fail('own_resources_kept', p, z3.BoolVal(True), '%s lost its own input' % (u,))
        out['obligations'] = list(results.values())
        out['solver_s'] = round(solver_s, 1)
    except Unsupported as e:
        out['error'] = 'unsupported: %s' % e
    except Exception as e:   # pragma: no cover
        import traceback
        out['error'] = 'exception: %s\n%s' % (e, traceback.format_exc()[-2000:])
    out['wall_s'] = round(time.time() - t0, 1)
    return out


def I_vals(v):
    if isinstance(v, RVec):
        return [x for _, x in v.items]
    if isinstance(v, Opaque) and v.tag in ('Collected', 'Iter'):
        return [x for _, x in v.get('items')]
    raise Unsupported('expected a vector, got %r' % (v,))


def ext_key(e):
    if e.variant == 'None':
        return None
    s = e.payload[0]
    return tuple(sorted(x for _, x in s.entries.values()))
