"""Protocol-family driver (C01 C04 C07 C08 C10 C11 C17 C20): SYS bounded model checking of the
actor system built from source-derived step summaries; counterexamples are replayed natively."""
import itertools
import json
import os
import sys
import time
import traceback

import z3

from ..monitors import ProtoMonitor
from ..prog import Program, Unsupported
from ..sysbmc import System, F, T
from .. import replay as rp

KINDS = ('build', 'service', 'aggregate')


def svc_below(sysm, t):
    """Reference: target t is, or aggregates (transitively), a service."""
    k = sysm.kinds[t]
    if k == 'service':
        return T
    if k == 'build':
        return F
    return z3.Or([z3.And(sysm.dep[t][d], svc_below(sysm, d)) for d in range(t)] + [F])


def closure(sysm):
    """in_closure[t]: t is requested or a transitive dependency of a requested target."""
    n = sysm.n
    inc = [None] * n
    dups = getattr(sysm.main, 'dup_syms', [])
    for t in reversed(range(n)):
        inc[t] = z3.Or([sysm.root[t]] + ([dups[t]] if dups else []) + [z3.And(inc[u], sysm.dep[u][t]) for u in range(t + 1, n)])
    return inc


def oracle_constraints(u, pred):
    cs = []
    for k, o in u.oracles.items():
        for (who, n), v in o.items():
            c = pred(who, n, v)
            if c is not None:
                cs.append(c)
    return cs


def nofail(who, n, v):
    if 'fails' in n or 'state_err' in n:
        return z3.Not(v)
    if 'exit_success' in n:
        return v
    return None


def replayable(who, n, v):
    """Faults / skips the native replay cannot inject are excluded from counterexample queries."""
    if 'delete_state_fails' in n or 'save_fails' in n or 'state_err' in n or 'state_none' in n or 'watcher_fails' in n:
        return z3.Not(v)
    if 'env_unchanged' in n:
        return z3.Not(v)
    return None


def replayable_oneshot(who, n, v):
    """One-shot runs: a skipped build is replayable (its state is recorded by a warm-up invocation)."""
    if 'env_unchanged' in n:
        return None
    return replayable(who, n, v)


class Query:
    def __init__(self, name, bad, assume=(), confirm=None, role=None, desc=''):
        self.name, self.bad, self.assume, self.confirm, self.desc, self.role = name, bad, list(assume), confirm, desc, role


def build_queries(prop, sysm, u, mon, tier='quick'):
    """Obligations (each expected unsat) for property `prop` on unrolling u."""
    n = sysm.n
    K = u.K
    S = u.states[-1]
    G = u.ghosts[-1]
    stut = len(u.alt_names)
    incomplete = z3.Not(u.quiescent(K, ignore=('signal', 'notify')))     # an internal step is still enabled in the final state
    final_quiet = z3.Not(incomplete)
    nosig = z3.Not(S['sig.sent'])
    nf = oracle_constraints(u, nofail)
    nohang = [z3.Not(z3.Bool('hang_%d' % i)) for i in range(n)]
    inc = closure(sysm)
    svc_root = z3.Or([z3.And(sysm.root[t], svc_below(sysm, t)) for t in range(n)])
    qs = []
    sticky = z3.Or(S['panic'], S['badmsg'])
    if prop == 'C01':
        if not (sysm.watch and tier == 'quick'):
            # (in watch mode this obligation takes minutes per case: thorough tier only; the watch clause proper is the next one)
            qs.append(Query('no_start_before_dependencies_ready', G['bad_start'], confirm='bad_start',
                            desc='a script/service process is spawned while a dependency has not succeeded / has not been started'))
        qs.append(Query('no_decision_to_start_while_last_word_out_of_date', G['bad_decide'], confirm='bad_start',
                        desc='an actor decides to start (creates its build future / spawns its service) while the last message received from a dependency is not Ok'))
        qs.append(Query('no_spawn_while_last_word_out_of_date', z3.And(G['bad_word'], z3.Not(G['bad_decide'])), confirm='bad_start', role='stale_start',
                        desc='the script is spawned (first poll of the build future) after an Invalidated arrived between the decision and that poll'))
        qs.append(Query('no_panic_or_misrouted_message', sticky, confirm='panic'))
    elif prop == 'C04':
        if not sysm.watch:
            base = nf + nohang + [nosig]
            qs.append(Query('bound_sufficient', incomplete, base, confirm=None, desc='completeness of K'))
            qs.append(Query('no_deadlock', z3.And(final_quiet, z3.Not(svc_root), z3.Not(z3.And(S['main.phase'] == 4, z3.Not(S['main.err'])))), base,
                            confirm='deadlock', desc='quiescent state in which a successful one-shot run has not exited with Ok'))
            qs.append(Query('all_needed_targets_done', z3.And(final_quiet, z3.Not(svc_root), z3.Or([
                z3.And(inc[t], G['nresult.%d' % t] != 1) for t in range(n) if sysm.kinds[t] == 'build'] + [F])), base, confirm='missing'))
            qs.append(Query('no_panic_or_misrouted_message', sticky, base, confirm='panic'))
            qs.append(Query('inbox_bound_sufficient', S['overflow'], base, confirm=None))
    elif prop == 'C08':
        if not sysm.watch:
            twice = z3.Or([z3.UGT(G['nstart.%d' % t], 1) for t in range(n)] + [z3.UGT(G['nresult.%d' % t], 1) for t in range(n)])
            qs.append(Query('never_twice', twice, [], confirm='twice'))
            outside = z3.Or([z3.And(S['launched.%d' % t], z3.Not(inc[t])) for t in range(n)])
            qs.append(Query('nothing_outside_closure', outside, [], confirm='outside'))
            base = nf + nohang + [nosig]
            exactly = z3.And(final_quiet, z3.Not(svc_root), z3.Or([z3.And(inc[t], (G['nresult.%d' % t] if sysm.kinds[t] == 'build' else G['nstart.%d' % t]) != 1)
                                                                     for t in range(n) if sysm.kinds[t] != 'aggregate'] + [F]))
            qs.append(Query('exactly_once_on_success', exactly, base, confirm='missing'))
    elif prop == 'C07':
        if not sysm.watch:
            qs.append(Query('no_start_of_dependents_of_failed', G['start_after_fail'], [], confirm='start_after_fail'))
            base = nohang + [nosig]
            qs.append(Query('bound_sufficient', incomplete, base))
            qs.append(Query('failure_fails_the_run', z3.And(final_quiet, z3.Or(G['any_failed'], G['truth_failed']), z3.Not(z3.And(S['main.phase'] == 4, S['main.err']))), base, confirm='rc_not_error',
                            desc='a script exited unsuccessfully / could not be spawned (environment truth) or a target reported failure => the one-shot run ends with Err'))
            qs.append(Query('unsuccessful_exit_is_a_failure', G['misclassified'], base, confirm='rc_not_error',
                            desc='a script whose process exits unsuccessfully (non-zero code or killed by a signal) is never treated as Skipped/Completed'))
            qs.append(Query('error_only_on_failure', z3.And(S['main.err'], z3.Not(G['any_failed'])), base, confirm='rc_error'))
        else:
            qs.append(Query('watch_keeps_running_after_failure', z3.And(nosig, S['main.phase'] != 0), [], confirm='watch_exit'))
    elif prop == 'C11':
        qs.append(Query('single_instance', G['double_svc'], [], confirm='double_svc'))
        qs.append(Query('dependency_services_are_running_when_a_build_starts', G['svc_down'], nf + [nosig], confirm='svc_down',
                        desc='without faults or termination signal: a build script is spawned while a service it depends on, directly or through aggregates, has no running instance'))
        if not sysm.watch:
            base = nf + nohang + [nosig]
            qs.append(Query('stays_alive_iff_service_requested', z3.And(final_quiet, z3.Not(z3.If(svc_root, S['main.phase'] == 1, S['main.phase'] == 4))), base, confirm='alive'))
            qs.append(Query('transient_services_stopped_at_exit', z3.And(S['main.phase'] == 4, z3.Or([S['proc.%d' % t] for t in range(n)])), [], confirm='leak'))
    elif prop == 'C17':
        if not sysm.watch:
            base = nf + [nosig]
            hang = [z3.Bool('hang_%d' % i) for i in range(n)]
            tr = mon.trans(sysm)
            blocked = [z3.Or([z3.And(tr[t][d], hang[d], sysm.kinds[d] == 'build') for d in range(t)] + [F]) for t in range(n)]
            notstarted = [z3.And(inc[t], z3.Not(blocked[t]), G['nstart.%d' % t] == 0, G['nresult.%d' % t] == 0) for t in range(n) if sysm.kinds[t] != 'aggregate']
            qs.append(Query('bound_sufficient', incomplete, base))
            qs.append(Query('nothing_waits_for_a_non_dependency', z3.And(final_quiet, z3.Or(notstarted + [F])), base, confirm='notstarted'))
    elif prop == 'C10':
        # no process ever exits by itself: every exit path must still complete
        allhang = [z3.Bool('hang_%d' % i) for i in range(n)]
        base = allhang
        left = S['main.phase'] != 0 if sysm.watch else z3.BoolVal(True)
        D = 14 if n <= 2 else 20       # steps allowed for the shutdown itself
        ms = u.alt_names.index(('main_signal',))
        # the main task takes the signal within the first K-D steps (how long it sits in the channel before is scheduling)
        early = z3.Or([u.choices[k] == ms for k in range(max(1, K - D))])
        qs.append(Query('bound_sufficient', z3.And(incomplete, early), base))
        qs.append(Query('signal_always_leads_to_exit', z3.And(final_quiet, S['sig.sent'], z3.Not(S['main.phase'] == 4)), base, confirm='stuck'))
        qs.append(Query('no_process_left_behind', z3.And(S['main.phase'] == 4, z3.Or([S['proc.%d' % t] for t in range(n)])), base, confirm='leak'))
        if not sysm.watch:
            qs.append(Query('failure_leads_to_exit', z3.And(final_quiet, G['any_failed'], z3.Not(S['main.phase'] == 4)), base, confirm='stuck'))
    elif prop == 'C05':
        # the "script fails => never remembered as done" half that lives in builder::build_target
        if not sysm.watch:
            qs.append(Query('unsuccessful_exit_is_a_failure', G['misclassified'], nohang + [nosig], confirm='rc_not_error',
                            desc='a script whose process exits unsuccessfully (non-zero code or killed by a signal) is never reported Completed/Skipped'))
    elif prop == 'C06':
        if sysm.watch:
            # convergence: once changes stop (at most E notifications, the run ends quiescent), without faults or signal, every
            # requested build/service target has been (re)started after the last change to its inputs and after the last
            # completed run of every build it depends on (directly or through aggregates)
            base = nf + nohang + [nosig, z3.Not(S['overflow'])] + oracle_constraints(u, replayable)
            stale = z3.Or([z3.And(inc[t], G['stale.%d' % t]) for t in range(n) if sysm.kinds[t] != 'aggregate'] + [F])
            qs.append(Query('converges_once_changes_stop', z3.And(final_quiet, stale), base, confirm='not_converged',
                            desc='quiescent state of a watch run in which some requested target has not been (re)started since the last relevant change'))
            qs.append(Query('no_panic_or_misrouted_message', sticky, base, confirm='panic'))
            # the same with scripts that may exit unsuccessfully: a failed execution that started before the last change does not
            # count; a target below a dependency whose most recent execution failed is excused
            nf_but_exit = [c for c in nf if 'exit_success' not in str(c)]
            base2 = nf_but_exit + nohang + [nosig, z3.Not(S['overflow'])] + oracle_constraints(u, replayable)
            tr = mon.trans(sysm)
            excused = [z3.Or([z3.And(tr[t][d], G['lastfail.%d' % d]) for d in range(t) if sysm.kinds[d] != 'aggregate'] + [F]) for t in range(n)]
            stale2 = z3.Or([z3.And(inc[t], G['stale.%d' % t], z3.Not(excused[t])) for t in range(n) if sysm.kinds[t] != 'aggregate'] + [F])
            qs.append(Query('converges_also_when_an_execution_fails', z3.And(final_quiet, G['truth_failed'], stale2), base2, confirm='not_converged',
                            desc='as above, with scripts that may fail: an execution that started before the last relevant change and failed must be repeated'))
    elif prop == 'C20':
        pass
    return qs


def witness_query(sysm, u):
    """A normal successful run in which every target is launched (vacuity guard + translator validation)."""
    S = u.states[-1]
    G = u.ghosts[-1]
    n = sysm.n
    cs = [z3.Not(S['sig.sent']), z3.Not(S['panic'])]
    cs += oracle_constraints(u, nofail) + oracle_constraints(u, replayable)
    cs += [z3.Not(z3.Bool('hang_%d' % i)) for i in range(n)]
    cs += [S['launched.%d' % t] for t in range(n)]
    cs.append(u.quiescent(u.K, ignore=('signal', 'notify')))      # ends quiescent
    if not sysm.watch:
        cs.append(z3.Or(S['main.phase'] == 4, S['main.phase'] == 1))
    else:
        cs.append(G['nnotify'] != 0)
    return cs


def expected_native(case):
    """Process-level events the model predicts for a case: ordered list of ('spawn', t) / ('exit', t, code)."""
    ev = []
    for st in case['steps']:
        for t in st['spawn']:
            ev.append(('spawn', t))
    return ev


def confirm_native(kind, case, tr):
    """Does the native run exhibit the violation the model reported?"""
    evs = tr.events
    if kind == 'stuck':
        return tr.stuck and not tr.main_done
    if kind == 'deadlock':
        # nobody can move although no script is running any more (a run that merely waits for a process is not a deadlock)
        return tr.stuck and not tr.main_done and not tr.stuck_running
    if kind == 'panic':
        return 'panicked' in tr.stderr
    if kind == 'twice':
        seen = set()
        for e in evs:
            if e[0] == 'spawn':
                if e[1] in seen:
                    return True
                seen.add(e[1])
        return False
    if kind in ('bad_start', 'start_after_fail'):
        ok_done = set()
        running = set()
        deps = {int(k): v for k, v in case['deps'].items()}
        kinds = case['kinds']

        def ready(d):
            if kinds[d] == 'build':
                return d in ok_done
            if kinds[d] == 'service':
                return d in running
            return all(ready(x) for x in deps.get(d, []))
        for e in evs:
            if e[0] == 'spawn':
                t = e[1]
                if not all(ready(d) for d in deps.get(t, [])):
                    return True
                running.add(t)
            elif e[0] == 'reap':
                running.discard(e[1])
                if e[2] == 0:
                    ok_done.add(e[1])
                else:
                    ok_done.discard(e[1])
        return False
    if kind == 'missing':
        spawned = {e[1] for e in evs if e[0] == 'spawn'}
        need = set()

        def add(t):
            if t in need:
                return
            need.add(t)
            for d in case['deps'].get(t, case['deps'].get(str(t), [])):
                add(d)
        for r in case['roots']:
            add(r)
        done = {e[1] for e in evs if e[0] == 'reap' and e[2] == 0}
        return tr.rc == 0 and any((case['kinds'][t] == 'build' and t not in done) or (case['kinds'][t] == 'service' and t not in spawned) for t in need)
    if kind == 'outside':
        spawned = {e[1] for e in evs if e[0] == 'spawn'}
        need = set()

        def add(t):
            if t in need:
                return
            need.add(t)
            for d in case['deps'].get(t, case['deps'].get(str(t), [])):
                add(d)
        for r in case['roots']:
            add(r)
        return any(t not in need for t in spawned)
    if kind == 'rc_not_error':
        failed = any((e[0] == 'reap' and e[2] not in (0, 'killed')) or e[0] == 'spawn_failed' for e in evs)
        return failed and (tr.rc == 0 or tr.stuck)
    if kind == 'rc_error':
        failed = any((e[0] == 'reap' and e[2] not in (0, 'killed')) or e[0] == 'spawn_failed' for e in evs)
        return (not failed) and tr.rc not in (0, 98)
    if kind == 'watch_exit':
        return tr.main_done and not any(e[0] == 'signal' for e in evs)
    if kind == 'double_svc':
        live = set()
        for e in evs:
            if e[0] == 'spawn' and case['kinds'][e[1]] == 'service':
                if e[1] in live:
                    return True
                live.add(e[1])
            elif e[0] == 'reap':
                live.discard(e[1])
        return False
    if kind == 'svc_down':
        deps = {int(k): v for k, v in case['deps'].items()}
        kinds = case['kinds']
        live = set()

        def up(d):
            if kinds[d] == 'service':
                return d in live
            if kinds[d] == 'build':
                return True
            return all(up(x) for x in deps.get(d, []))
        for e in evs:
            if e[0] == 'main_done':
                break
            if e[0] == 'spawn':
                if kinds[e[1]] == 'service':
                    live.add(e[1])
                elif not all(up(d) for d in deps.get(e[1], [])):
                    return True
            elif e[0] in ('kill', 'reap') and kinds[e[1]] == 'service':
                live.discard(e[1])
        return False
    if kind == 'alive':
        # specification: the one-shot run stays alive iff a requested target is, or aggregates, a service
        deps = {int(k): v for k, v in case['deps'].items()}
        kinds = case['kinds']

        def has_service(t):
            if kinds[t] == 'service':
                return True
            if kinds[t] == 'aggregate':
                return any(has_service(d) for d in deps.get(t, []))
            return False
        should_stay = any(has_service(r) for r in case['roots'])
        stays = tr.stuck and not tr.main_done
        return stays != should_stay
    if kind == 'start_after_lastfail':
        deps = {int(k): v for k, v in case['deps'].items()}
        kinds = case['kinds']

        def below(t, seen=()):
            out = set()
            for d in deps.get(t, []):
                if d not in seen:
                    out.add(d)
                    out |= below(d, seen + (d,))
            return out
        lastfail = {}
        for e in evs:
            if e[0] == 'spawn':
                if any(lastfail.get(d) for d in below(e[1]) if kinds[d] != 'aggregate'):
                    return True
                lastfail[e[1]] = False
            elif e[0] == 'spawn_failed':
                lastfail[e[1]] = True
            elif e[0] == 'reap' and e[2] != 'killed':
                lastfail[e[1]] = (e[2] != 0)
        return False
    if kind == 'not_converged':
        deps = {int(k): v for k, v in case['deps'].items()}
        kinds = case['kinds']

        def eff(t):
            out = set()
            for d in deps.get(t, []):
                if kinds[d] == 'aggregate':
                    out |= eff(d)
                else:
                    out.add(d)
            return out
        need = set()

        def add(t):
            if t in need:
                return
            need.add(t)
            for d in deps.get(t, []):
                add(d)
        for r in case['roots']:
            add(r)
        stale = {t: True for t in range(len(kinds)) if kinds[t] != 'aggregate'}
        for e in evs:
            if e[0] == 'spawn' and e[1] in stale:
                stale[e[1]] = False
            elif e[0] == 'notify' and e[1] in stale:
                stale[e[1]] = True
            elif e[0] == 'reap' and e[2] == 0 and kinds[e[1]] == 'build':
                for t in stale:
                    if e[1] in eff(t):
                        stale[t] = True
        # the native run is quiescent (nothing can move, no script running) and a requested target is stale
        return tr.stuck and not tr.stuck_running and not tr.main_done and any(stale[t] for t in need if t in stale)
    if kind == 'leak':
        return bool(tr.unreaped) or any(l.startswith('proc_dropped_unreaped') for l in tr.log)
    if kind == 'notstarted':
        # some target of the closure, none of whose transitive build dependencies is one of the never-ending scripts, was never started
        deps = {int(k): v for k, v in case['deps'].items()}
        kinds = case['kinds']
        hang = set(case.get('hang', []))
        need = set()

        def add(t):
            if t not in need:
                need.add(t)
                for d in deps.get(t, []):
                    add(d)
        for r in case['roots']:
            add(r)

        def blocked(t, seen=()):
            for d in deps.get(t, []):
                if (kinds[d] == 'build' and d in hang) or blocked(d):
                    return True
            return False
        spawned = {e[1] for e in evs if e[0] == 'spawn'}
        return any(kinds[t] != 'aggregate' and not blocked(t) and t not in spawned for t in need)
    return False


def run_case(arg):
    """Worker: one kinds-combination. Returns a dict of results."""
    (prop, kinds, watch, K, qcap, seed, do_witness, timeout_s, repo, tier) = arg[:10]
    budget_s = arg[10] if len(arg) > 10 else None        # wall-clock budget for all solver queries of this case
    pin = arg[11] if len(arg) > 11 else None             # {'deps': {i: [j..]}, 'roots': [..]}: one fixed graph instead of all of them
    only = arg[12] if len(arg) > 12 else None            # names of the obligations to discharge in this case (None = all)
    emax = arg[13] if len(arg) > 13 else 2               # bound E: at most that many file-change notifications per run (watch)
    t_start = time.time()
    out = {'kinds': kinds, 'watch': watch, 'K': K, 'queries': [], 'witness': None, 'error': None, 'functions': [], 'paths': 0}
    try:
        prog = Program(repo)
        sysm = System(prog, list(kinds), watch, qcap=qcap, roots_dup=(prop in ('C08',)))
        mon = ProtoMonitor(watch)
        u = sysm.unroll(K, mon)
        out['summary_s'] = round(sysm.build_time, 1)
        out['unroll_s'] = round(time.time() - t_start - sysm.build_time, 1)
        fns = set()
        for am in sysm.actors:
            fns |= am.co.I.stats['fns']
            out['paths'] += am.co.stats['paths']
        fns |= sysm.main.co.I.stats['fns']
        out['paths'] += sysm.main.co.stats['paths']
        for bf in sysm.bfs.values():
            fns |= bf.sc.I.stats['fns']
        out['functions'] = sorted(fns)
        out['state_vars'] = len(u.states[0])
        out['alternatives'] = len(u.alt_names)
        s = u.solver(timeout_ms=int(timeout_s * 1000))
        s.add(z3.Or(sysm.root))
        if pin is not None:
            for i in range(sysm.n):
                for j in range(i):
                    s.add(sysm.dep[i][j] if j in pin['deps'].get(i, []) else z3.Not(sysm.dep[i][j]))
                s.add(sysm.root[i] if i in pin['roots'] else z3.Not(sysm.root[i]))
            out['pinned'] = pin
        if watch:
            s.add(z3.ULE(u.ghosts[-1]['nnotify'], emax))      # bound E
            out['max_notifications'] = emax
        for q in build_queries(prop, sysm, u, mon, tier):
            if only is not None and q.name not in only:
                continue
            t0 = time.time()
            s.push()
            for a in q.assume:
                s.add(a)
            s.add(q.bad)
            # case split on the dependency matrix (schedule, roots and faults stay symbolic inside each case)
            depsyms = [sysm.dep[i][j] for i in range(sysm.n) for j in range(i)]
            r = z3.unsat
            nsub = 0
            for bits in (itertools.product([False, True], repeat=len(depsyms)) if pin is None else [None]):
                assumps = [d if b else z3.Not(d) for d, b in zip(depsyms, bits)] if bits is not None else []
                nsub += 1
                if budget_s is not None:
                    left = budget_s - (time.time() - t_start)
                    if left < 5:
                        r = 'unknown (case budget of %d s used up)' % budget_s
                        break
                    s.set('timeout', int(min(timeout_s, left) * 1000))
                rr = s.check(*assumps)
                if rr == z3.sat:
                    r = z3.sat
                    for a in assumps:
                        s.add(a)
                    break
                if rr != z3.unsat:
                    r = rr
            res = {'name': q.name, 'verdict': str(r), 'solver_s': round(time.time() - t0, 2), 'desc': q.desc, 'confirm': q.confirm, 'role': q.role,
                   'graph_cases': nsub}
            if r == z3.unsat and not out.get('cross_checks') and os.environ.get('ZX_CROSS', '1') != '0':
                # second opinion on one discharged obligation per case (last graph sub-case): another z3 build on the SMT-LIB2 text
                try:
                    from .common import cross_check
                    cc = cross_check(list(s.assertions()) + list(assumps), 'unsat', timeout_s=120, solvers=('z3-new',))
                    cc['obligation'] = q.name
                    out.setdefault('cross_checks', []).append(cc)
                except Exception as e:   # pragma: no cover
                    out.setdefault('cross_checks', []).append({'obligation': q.name, 'error': str(e)[:200], 'agree': None, 'results': {}})
            if r == z3.sat:
                # prefer a counterexample the native replay can follow exactly
                s.push()
                for c in oracle_constraints(u, replayable if watch else replayable_oneshot):
                    s.add(c)
                r2 = s.check()
                if r2 == z3.sat:
                    m = s.model()
                    res['replayable'] = True
                else:
                    s.pop()
                    s.push()
                    s.check()
                    m = s.model()
                    res['replayable'] = False
                res['case'] = rp.model_case(sysm, u, m)
                res['late_request'] = late_request_role(sysm, u, m)
                s.pop()
            s.pop()
            out['queries'].append(res)
        if do_witness:
            t0 = time.time()
            s.push()
            for c in witness_query(sysm, u):
                s.add(c)
            r = s.check()
            w = {'verdict': str(r), 'solver_s': round(time.time() - t0, 2)}
            if r == z3.sat:
                w['case'] = rp.model_case(sysm, u, s.model())
            s.pop()
            out['witness'] = w
    except Unsupported as e:
        out['error'] = 'unsupported: %s' % e
    except Exception as e:   # pragma: no cover
        out['error'] = 'exception: %s\n%s' % (e, traceback.format_exc()[-1500:])
    out['wall_s'] = round(time.time() - t_start, 1)
    return out


def late_request_role(sysm, u, m):
    """Role of known finding F1: a Requested{kind} reaches a build/service target after it has already executed."""
    ev = lambda t: z3.is_true(m.eval(t, model_completion=True))
    for k in range(u.K):
        ob = u.obs[k + 1]
        for (i, label), (g, f) in ob.ev.get('recv', {}).items():
            if label[0] == 'Requested' and ev(g) and ev(u.enabled[k][0] if False else T):
                # was this the step's chosen alternative for actor i?
                ch = m.eval(u.choices[k], model_completion=True).as_long()
                if ch < len(u.alt_names) and u.alt_names[ch] == ('inbox', i):
                    kind = sysm.kinds[i]
                    if kind == 'build' and label[1] == 'Build':
                        if m.eval(u.ghosts[k]['nresult.%d' % i], model_completion=True).as_long() >= 1:
                            return {'target': i, 'requester': label[2], 'step': k}
                    if kind == 'service' and label[1] == 'Service':
                        if m.eval(u.ghosts[k]['nstart.%d' % i], model_completion=True).as_long() >= 1:
                            return {'target': i, 'requester': label[2], 'step': k}
    return None


# ---------------------------------------------------------------------- LOCAL obligations (one actor, open environment)
LOCAL_PLAN = {
    'C01': [('build', False), ('build', True), ('service', False), ('service', True), ('aggregate', False), ('aggregate', True)],
    'C04': [('build', False), ('service', False), ('aggregate', False)],
    'C06': [('build', True), ('service', True), ('aggregate', True)],
    'C07': [('build', False), ('build', True), ('service', False), ('service', True)],
    'C08': [('build', False), ('service', False)],
    'C11': [('service', False), ('service', True), ('aggregate', False), ('build', False)],
    'C10': [('service', False), ('service', True), ('build', False), ('build', True)],
    'C20': [('aggregate', False), ('aggregate', True)],
    'C17': [('build', False), ('service', False), ('aggregate', False), ('build', True), ('service', True)],
}
LOCAL_MONITORS = {
    'C01': ['bad_decide', 'ok_without_cause', 'requested_non_dependency', 'reports_on_another_target'],
    'C04': ['late_unanswered', 'misdirected_ok', 'idle_although_ready'],
    'C06': ['late_unanswered', 'bad_decide', 'ok_without_cause', 'reports_on_another_target'],
    'C07': ['ok_on_fail', 'ok_without_cause', 'failed_while_acknowledged'],
    'C08': ['twice'],
    'C17': ['withheld_request', 'requested_non_dependency'],
    'C11': ['double_proc', 'wrong_actual', 'proc_left_at_exit'],
    'C10': ['proc_left_at_exit', 'double_proc'],
    'C20': ['ok_without_cause', 'late_unanswered', 'misdirected_ok', 'wrong_actual', 'reports_on_another_target'],
}


def run_local(arg):
    prop, kind, watch, L, repo = arg
    from ..local import LocalMonitor, LocalSystem
    from .. import local_replay as lr
    t0 = time.time()
    out = {'kind': kind, 'watch': watch, 'L': L, 'queries': [], 'error': None, 'functions': [], 'local': True, 'witness': None}
    try:
        prog = Program(repo)
        ls = LocalSystem(prog, kind, watch)
        mon = LocalMonitor(watch)
        u = ls.unroll(L, mon)
        fns = set(ls.actors[ls.me].co.I.stats['fns'])
        for bf in ls.bfs.values():
            fns |= bf.sc.I.stats['fns']
        out['functions'] = sorted(fns)
        out['state_vars'] = len(u.states[0])
        out['alternatives'] = len(u.alt_names)
        s = u.solver(timeout_ms=300000)
        G = u.ghosts[-1]
        s.add(z3.Not(G['env_inconsistent']))
        for name in LOCAL_MONITORS[prop]:
            if name == 'twice' and watch:
                continue
            tq = time.time()
            s.push()
            s.add(z3.UGT(G['ndecide'], 1) if name == 'twice' else G[name])
            # counterexamples the native harness can follow: no un-injectable faults
            r = s.check()
            res = {'name': 'local:%s' % name, 'verdict': str(r), 'solver_s': round(time.time() - tq, 2), 'monitor': name}
            if r == z3.sat:
                s.push()
                for c in oracle_constraints(u, replayable):
                    s.add(c)
                if s.check() == z3.sat:
                    m = s.model()
                else:
                    s.pop()
                    s.push()
                    s.check()
                    m = s.model()
                res['trace'] = lr.model_trace(ls, u, m)
                s.pop()
            s.pop()
            out['queries'].append(res)
        # witness: a run in which the actor starts its script / acknowledges (vacuity guard + translator validation)
        s.push()
        for c in oracle_constraints(u, nofail) + oracle_constraints(u, replayable):
            s.add(c)
        if kind == 'aggregate':
            s.add(z3.Or([u.obs[k + 1].any('emit', lambda key: key[2][0] == 'Ok') for k in range(L)]))
        else:
            s.add(G['ndecide'] != 0)
            s.add(z3.Or([u.obs[k + 1].any('emit', lambda key: key[2][0] == 'Ok' and key[2][1] == ('Build' if kind == 'build' else 'Service')) for k in range(L)]))
        if s.check() == z3.sat:
            out['witness'] = lr.model_trace(ls, u, s.model())
            ev = lambda t_: z3.is_true(s.model().eval(t_, model_completion=True))
            out['witness_model_oks'] = sum(1 for k in range(L) for key, (g, f) in u.obs[k + 1].ev.get('emit', {}).items() if key[2][0] == 'Ok' and ev(g))
            out['witness_model_spawns'] = sum(1 for k in range(L) for key, (g, f) in u.obs[k + 1].ev.get('spawn', {}).items() if ev(g))
        s.pop()
    except Unsupported as e:
        out['error'] = 'unsupported: %s' % e
    except Exception as e:   # pragma: no cover
        out['error'] = 'exception: %s\n%s' % (e, traceback.format_exc()[-1500:])
    out['wall_s'] = round(time.time() - t0, 1)
    return out


def run_sysq(arg):
    """Worker: SYSQ search for one kinds-combination (explicit relay channel, blocking sends, bounded capacities clamped
    to `cap`).  A blocked state reachable within K steps is reported (after native replay with the same clamp); 'unsat'
    says none is reachable within K steps under the clamp ('bound_sufficient' unsat: no run is longer than K)."""
    (prop, kinds, K, cap, timeout_s, repo) = arg
    from ..sysq import QSystem
    t_start = time.time()
    out = {'kinds': kinds, 'watch': False, 'K': K, 'cap': cap, 'queries': [], 'error': None, 'functions': []}
    try:
        prog = Program(repo)
        sysm = QSystem(prog, list(kinds), False, cap_out=cap, cap_in=cap)
        mon = ProtoMonitor(False)
        u = sysm.unroll(K, mon)
        out['state_vars'] = len(u.states[0])
        out['alternatives'] = len(u.alt_names)
        out['inbox_unbounded_in_source'] = list(sysm.inbox_unbounded)
        out['receiver_dropped_when_run_returns'] = bool(sysm.receiver_by_value)
        s = u.solver(timeout_ms=int(timeout_s * 1000))
        s.add(z3.Or(sysm.root))
        S = u.states[-1]
        G = u.ghosts[-1]
        for c in oracle_constraints(u, replayable):
            s.add(c)
        s.add(z3.Not(S['overflow']))
        quiet = u.quiescent(K, ignore=('signal', 'notify'))
        nohang = [z3.Not(z3.Bool('hang_%d' % i)) for i in range(sysm.n)]
        allhang = [z3.Bool('hang_%d' % i) for i in range(sysm.n)]
        nf = oracle_constraints(u, nofail)
        qs = []
        if prop == 'C04':
            base = nf + nohang + [z3.Not(S['sig.sent'])]
            qs.append(Query('no_circular_wait_between_relay_and_actors', z3.And(quiet, z3.Not(z3.And(S['main.phase'] == 4, z3.Not(S['main.err'])))), base, confirm='deadlock',
                            role='relay_inbox_circular_wait', desc='quiescent state (nobody can move, pending sends blocked) in which a successful one-shot run has not exited; capacities clamped to %d' % cap))
            qs.append(Query('bound_sufficient_under_queue_pressure', z3.Not(quiet), base, confirm=None, desc='some run is longer than K steps'))
        elif prop == 'C10':
            qs.append(Query('signal_leads_to_exit_under_queue_pressure', z3.And(quiet, S['sig.sent'], S['main.phase'] != 4), allhang, confirm='stuck',
                            role='shutdown_blocked_on_full_channel', desc='after a signal, nobody can move and the program has not exited (an actor or the engine is blocked on a full channel); capacities clamped to %d' % cap))
            if timeout_s > 300:      # thorough tier only: this one does not decide within the quick budget
              qs.append(Query('failure_leads_to_exit_under_queue_pressure', z3.And(quiet, G['any_failed'], z3.Not(S['sig.sent']), S['main.phase'] != 4), nohang, confirm='deadlock',
                            role='shutdown_blocked_on_full_channel', desc='after a failure, nobody can move and the program has not exited; capacities clamped to %d' % cap))
        depsyms = [sysm.dep[i][j] for i in range(sysm.n) for j in range(i)] + list(sysm.root)
        for q in qs:
            t0 = time.time()
            s.push()
            for a in q.assume:
                s.add(a)
            s.add(q.bad)
            r = z3.unsat
            nsub = 0
            for bits in itertools.product([True, False], repeat=len(depsyms)):
                if not any(bits[len(depsyms) - sysm.n:]):
                    continue
                assumps = [d if b else z3.Not(d) for d, b in zip(depsyms, bits)]
                nsub += 1
                left = timeout_s - (time.time() - t0)        # timeout_s is the budget of the whole query
                if left < 5:
                    r = 'unknown (query budget of %d s used up)' % timeout_s
                    break
                s.set('timeout', int(left * 1000))
                rr = s.check(*assumps)
                if rr == z3.sat:
                    r = z3.sat
                    break
                if rr != z3.unsat:
                    r = rr
            res = {'name': q.name, 'verdict': str(r), 'solver_s': round(time.time() - t0, 2), 'confirm': q.confirm, 'role': q.role, 'graph_cases': nsub, 'desc': q.desc}
            if r == z3.sat:
                res['case'] = rp.model_case(sysm, u, s.model())
                res['case']['cap'] = cap
            s.pop()
            out['queries'].append(res)
    except Unsupported as e:
        out['error'] = 'unsupported: %s' % e
    except Exception as e:   # pragma: no cover
        out['error'] = 'exception: %s\n%s' % (e, traceback.format_exc()[-1500:])
    out['wall_s'] = round(time.time() - t_start, 1)
    return out


def shared_waits_in_build_future(arg):
    """The build future of a build target (builder::build_target inside incremental::run, as launched by the real actor): on no
    feasible path does it wait for its script's process while holding a process-wide object (a lock or a slot of a channel living
    in a static) -- with one slot (one CPU) an unrelated build would wait for this one."""
    tier, repo = arg
    t0 = time.time()
    out = {'obligations': [], 'error': None, 'functions': [], 'paths': 0}
    try:
        prog = Program(repo)
        sysm = System(prog, ['build'], False, qcap=4)
        bf = sysm.bfs[0]
        out['functions'] = sorted(bf.sc.I.stats['fns'])
        ob = {'name': 'build_future_holds_nothing_shared_while_its_script_runs', 'verdict': 'unsat', 'checked_paths': 0, 'shared_objects_seen': []}
        seen = set()
        s = z3.Solver()
        s.set('timeout', 60000)

        def walk(sums, held, conds):
            for ps in sums:
                h = dict(held)
                for kind, data in ps.effects:
                    if kind == 'lock' and data.get('name'):
                        h[data['gid']] = data['name']
                        seen.add('%s %s' % (data.get('obj'), data['name']))
                    elif kind == 'unlock':
                        h.pop(data.get('gid'), None)
                c = ps.cond
                cs = conds + ([] if c is True else [c])
                ob['checked_paths'] += 1
                if ps.outcome == 'suspend':
                    waits_for_process = any(a.get('kind') == 'status' for a in ps.info.get('arms', [])) if isinstance(ps.info, dict) else False
                    if h and waits_for_process and ob['verdict'] != 'sat':
                        s.push()
                        for x in cs:
                            s.add(x if not isinstance(x, bool) else z3.BoolVal(x))
                        r = s.check()
                        s.pop()
                        if r == z3.sat:
                            ob['verdict'] = 'sat'
                            ob['held'] = sorted(set(h.values()))
                            ob['detail'] = 'the build future waits for its script while holding %s' % ', '.join(sorted(set(h.values())))
                    node = getattr(ps, 'next', None)
                    if node is not None:
                        for key, sub in node.edges.items():
                            walk(sub, h, cs)
        walk(bf.sc.first, {}, [])
        ob['shared_objects_seen'] = sorted(seen)
        out['obligations'].append(ob)
    except Unsupported as e:
        out['error'] = 'unsupported: %s' % e
    except Exception as e:   # pragma: no cover
        out['error'] = 'exception: %s\n%s' % (e, traceback.format_exc()[-1500:])
    out['wall_s'] = round(time.time() - t0, 1)
    return out


def native_two_independent_builds(repo, cpus='0'):
    """Real code, one CPU visible: two unrelated builds, the first one's script never ends; the second must still be started."""
    import shutil
    import tempfile
    from ..native import build_native, run_native
    binpath, _ = build_native(repo)
    d = tempfile.mkdtemp(prefix='zx-c17b-', dir=os.environ.get('VERIF_SCRATCH', '/var/tmp'))
    try:
        open(d + '/zinoma.yml', 'w').write('targets:\n  t0:\n    build: echo t0\n  t1:\n    build: echo t1\n')
        r = run_native(binpath, d, ['t0', 't1'], None, timeout=60, extra_env={'ZX_HANG_SCRIPT': 'echo t0', 'ZX_TASKSET': cpus})
        spawned = [l.split('script="echo ')[1].rstrip('"') for l in r['log'] if l.startswith('proc_spawn') and 'script="echo ' in l]
        return {'rc': r['rc'], 'spawned': spawned, 'cpus': cpus, 'stderr': r['stderr'][-200:]}
    finally:
        shutil.rmtree(d, ignore_errors=True)
