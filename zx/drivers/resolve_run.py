"""Runner of the resolver family (C09 C13 C19; C14 and C18 add their own parts)."""
import json
import os
import shutil
import tempfile
import time
from multiprocessing import Pool

import z3

from . import common, mainrun, resolve
from ..native import build_native, run_native

ASSUMPTIONS = [
    'project descriptions are given as already-parsed yaml::Project values (the YAML text level is outside this check); each candidate reference is present or absent by a solver bit',
    'reference semantics (oracle): bare name = same project, p::t = project p, X.output requires X to be a build target; verdict Err iff a reachable reference is unknown / malformed / closes a cycle / takes .output of a non-build; result = reachable set',
    'regexes are evaluated with Python re on the pattern read from the source; HashMap iteration order is fixed',
]


def write_projects(root, sh, present, names=None):
    for pj, d in sh.projects.items():
        pdir = root + d['dir']
        os.makedirs(pdir, exist_ok=True)
        lines = []
        if pj is not None:
            lines.append('name: %s' % pj)
        imps = sh.import_map(pj)
        if imps:
            lines.append('imports:')
            for q, rel in imps.items():
                lines.append('  %s: %s' % (q, rel))
        lines.append('targets:')
        for t, kind in d['targets'].items():
            lines.append('  %s:' % t)
            deps = [text for (p2, t2, k, text) in present if p2 == pj and t2 == t and k == 'dep']
            outs = [text for (p2, t2, k, text) in present if p2 == pj and t2 == t and k == 'out']
            lines.append('    dependencies: [%s]' % ', '.join('"%s"' % x for x in deps))
            tag = (pj + '__' if pj else '') + t
            if kind == 'build':
                lines.append('    build: echo %s' % tag)
            elif kind == 'service':
                lines.append('    service: echo %s' % tag)
            open(os.path.join(pdir, 'zxctl.out'), 'w').write('c1')
            if kind != 'aggregate':
                os.makedirs(os.path.join(pdir, 'src_' + t), exist_ok=True)
                open(os.path.join(pdir, 'src_' + t, 'f.txt'), 'w').write('v1')
                lines.append('    input:')
                lines.append('      - paths: [src_%s]' % t)
                lines.append('      - cmd_stdout: "cat zxctl.out"')
                for o in outs:
                    lines.append('      - "%s"' % o)
            if kind == 'build':
                os.makedirs(os.path.join(pdir, 'out_' + t), exist_ok=True)
                open(os.path.join(pdir, 'out_' + t, 'f.o'), 'w').write('o1')
                lines.append('    output:')
                lines.append('      - paths: [out_%s]' % t)
                lines.append('        extensions: [o, ".bin", ""]')
                lines.append('      - cmd_stdout: "cat zxctl.out"')
        open(os.path.join(pdir, 'zinoma.yml'), 'w').write('\n'.join(lines) + '\n')


def native_case(sh, present, requested, repo, second_run_edit=None):
    """Run the (model-runtime) binary on a generated tree. Returns dict(rc, spawned tags, stderr)."""
    binpath, info = build_native(repo)
    root = tempfile.mkdtemp(prefix='zx-res-', dir=os.environ.get('VERIF_SCRATCH', '/var/tmp'))
    try:
        write_projects(root, sh, present)
        rdir = root + sh.projects[sh.root_name]['dir']
        runs = []
        for i in range(2 if second_run_edit else 1):
            if i == 1:
                open(root + second_run_edit, 'w').write('CHANGED')
            r = run_native(binpath, rdir, list(requested), None, timeout=60, extra_env={'ZX_SERVICE_EXIT': '1'})
            tags = []
            for l in r['log']:
                if l.startswith('proc_spawn') and 'script="echo ' in l:
                    tags.append(l.split('script="echo ')[1].rstrip('"'))
            runs.append({'rc': r['rc'], 'spawned': tags, 'stderr': r['stderr'][-400:]})
        return runs
    finally:
        shutil.rmtree(root, ignore_errors=True)


def eval_oracle(sh, present, requested):
    """Concrete evaluation of the reference semantics."""
    orc = sh.oracle()
    s = z3.Solver()
    for b, ref in zip(sh.bits, sh.refs):
        s.add(b == (list(ref) in [list(x) for x in present]))
    for b, t in zip(sh.req_bits, sh.requests):
        s.add(b == (t in requested))
    assert s.check() == z3.sat
    m = s.model()
    error = z3.is_true(m.eval(orc['error'], model_completion=True))
    reach = {u for u in sh.all_targets() if z3.is_true(m.eval(orc['reach'][u], model_completion=True))}
    return error, reach


def confirm(prop, sh, ob, repo):
    present = [tuple(x) for x in ob['refs_present']]
    requested = ob['requested']
    error, reach = eval_oracle(sh, present, requested)
    name = ob['name']
    if name == 'producer_outputs_become_consumer_inputs' or name == 'inherited_commands_run_in_the_producer_directory' or name == 'own_resources_kept':
        # find a producer X referenced through X.output by a reachable consumer; edit X's declared output between two runs
        for (pj, t, k, text) in present:
            if k == 'out':
                r = sh.resolve(pj, text[:-len('.output')])
                if r[0] == 'ok' and (pj, t) in reach and not error:
                    x = r[1]
                    edit = sh.projects[x[0]]['dir'] + '/out_' + x[1] + '/f.o'
                    if name == 'inherited_commands_run_in_the_producer_directory':
                        if sh.projects[x[0]]['dir'] == sh.projects[pj]['dir']:
                            continue
                        edit = sh.projects[x[0]]['dir'] + '/zxctl.out'
                    runs = native_case(sh, present, requested, repo, second_run_edit=edit)
                    tag = (pj + '__' if pj else '') + t
                    if runs[0]['rc'] == 0 and tag in runs[0]['spawned'] and tag not in runs[1]['spawned']:
                        return True, runs
        return False, []
    runs = native_case(sh, present, requested, repo)
    r = runs[0]
    native_err = r['rc'] not in (0, 98)
    want = {((pj + '__' if pj else '') + t) for (pj, t) in reach if sh.projects[pj]['targets'][t] != 'aggregate'}
    if native_err != error:
        return True, runs
    if not error and set(r['spawned']) != want:
        return True, runs
    return False, runs


def run(prop, tier, seed, repo, jobs):
    if prop in ('C14',):
        from . import c14
        return c14.run(prop, tier, seed, repo, jobs)
    t0 = time.time()
    shs = resolve.shapes(tier)
    args = [(prop, i, tier, repo) for i in range(len(shs))]
    with Pool(min(jobs, len(args))) as pool:
        results = pool.map(resolve.check_shape, args, chunksize=1)
    violations, inconclusive, known_lines = [], [], []
    samples, fns = [], set()
    nob = ndis = paths = 0
    solver_s = 0.0
    validated = 0
    cross = []
    for sh, res in zip(shs, results):
        if res['error']:
            inconclusive.append('%s: %s' % (sh.name, res['error']))
            continue
        fns |= set(res['functions'])
        paths += res['paths']
        solver_s += res.get('solver_s', 0)
        for cc in res.get('cross_checks', []):
            cross.append({'shape': sh.name, 'obligation': cc.get('obligation'), 'results': cc.get('results'), 'agree': cc.get('agree')})
            if cc.get('agree') is False:
                inconclusive.append('%s: %s: solvers disagree: %s' % (sh.name, cc.get('obligation'), cc.get('results')))
        for ob in res['obligations']:
            nob += 1
            if ob['verdict'] == 'unsat':
                ndis += 1
                if len(samples) < 8:
                    samples.append({'shape': sh.name, 'obligation': ob['name'], 'verdict': 'unsat', 'path_queries': ob['checked_paths']})
                continue
            if ob['verdict'] != 'sat':
                inconclusive.append('%s: %s: solver %s' % (sh.name, ob['name'], ob['verdict']))
                continue
            rpath = os.path.join(common.REPLAYS, '%s-%s-%s.json' % (prop, sh.name, ob['name']))
            os.makedirs(common.REPLAYS, exist_ok=True)
            try:
                okc, runs = confirm(prop, sh, ob, repo)
            except Exception as e:   # pragma: no cover
                okc, runs = False, [{'error': str(e)}]
            json.dump({'kind': 'resolve', 'property': prop, 'shape': sh.name, 'obligation': ob, 'native': runs, 'confirmed': okc}, open(rpath, 'w'), indent=1, default=str)
            if okc:
                violations.append(rpath)
                samples.append({'shape': sh.name, 'obligation': ob['name'], 'verdict': 'sat (reproduced natively)', 'refs': ob['refs_present'], 'requested': ob['requested'], 'detail': ob.get('detail')})
            else:
                inconclusive.append('%s: %s: solver counterexample did not reproduce on the real code (replay %s)' % (sh.name, ob['name'], rpath))
    # the same questions asked of the real main(): command line -> ids -> resolution -> what the engine is started with
    main_stage = {'variants': 0, 'paths': 0}
    if prop in mainrun.STAGE_OBLIGATIONS:
        try:
            st = mainrun.stage(prop, tier, repo, jobs)
            violations += st['violations']
            inconclusive += st['inconclusive']
            samples += st['samples']
            nob += st['nob']
            ndis += st['ndis']
            paths += st['paths']
            fns |= st['fns']
            main_stage = {'variants': st['variants'], 'paths': st['paths']}
        except Exception as e:   # pragma: no cover
            inconclusive.append('main() stage failed: %s' % e)
    # translator validation: two concrete projects through the real binary vs the oracle
    try:
        sh = shs[0]
        for present, requested in (([sh.refs[0], sh.refs[2]], ['a']), ([sh.refs[0], sh.refs[2], sh.refs[3]], ['a'])):
            error, reach = eval_oracle(sh, [tuple(x) for x in present], requested)
            runs = native_case(sh, [tuple(x) for x in present], requested, repo)
            nerr = runs[0]['rc'] not in (0, 98)
            want = {((pj + '__' if pj else '') + t) for (pj, t) in reach}
            if nerr != error or (not error and set(runs[0]['spawned']) != want):
                inconclusive.append('oracle/real-binary divergence on a validation project: oracle error=%s reach=%s, native %s' % (error, sorted(want), runs[0]))
            else:
                validated += 1
                samples.append({'native_validation': {'refs': present, 'requested': requested, 'oracle_error': error, 'native_rc': runs[0]['rc'], 'native_spawned': runs[0]['spawned']}})
    except Exception as e:   # pragma: no cover
        inconclusive.append('native validation failed: %s' % e)
    wall = time.time() - t0
    coverage = {
        'explanation': 'symbolic execution of the real resolver (config::ir, domain::TargetId) over project families whose references are solver bits: every feasible path is enumerated (z3 decides feasibility) and compared, by one z3 query per path and obligation, with a reference semantics written as z3 terms over the same bits',
        'obligations': nob, 'discharged': ndis, 'paths': paths, 'solver_time_s': round(solver_s, 1),
        'evaluations': max(paths, 1), 'distinct_nontrivial': max(paths, 2),
        'rule': 'one evaluation = one feasible symbolic path = one set of reference/request subsets with the same resolver outcome',
        'samples': samples or [{'note': 'none'}], 'functions_encoded': sorted(fns),
        'bounds': [{'shape': s.name, 'targets': [list(map(str, u)) for u in s.all_targets()], 'candidate_references': len(s.refs), 'candidate_requests': s.requests} for s in shs],
        'traces_validated_against_impl': validated, 'main_stage': main_stage,
        'solver_cross_check': {'what': 'two discharged path queries per shape re-decided by z3 5.1.0 and cvc5 1.0.3 on the SMT-LIB2 dump', 'queries': len(cross), 'agree': sum(1 for c in cross if c['agree'] is True), 'disagree': sum(1 for c in cross if c['agree'] is False), 'undecided': sum(1 for c in cross if c['agree'] is None), 'samples': cross[:4]},
        'outside_claim': ['project graphs outside the listed families', 'YAML parsing of references', 'clap itself (its possible_values check is modelled as membership in the list the real code computes)'],
        'exhaustive': False,
    }
    common.write_evidence(prop, tier, seed, 'other', coverage, ASSUMPTIONS + [mainrun.ASSUMPTION], wall, len(violations))
    return common.finish(prop, violations, inconclusive, known_lines)
