"""STEP obligations: one step of one actor from an arbitrary (symbolic) state, decided on the step summaries
(every path is a solver-feasible set of pre-states/events).  They hold for histories and graphs of any size."""
import z3

from ..actors import ActorModel, decode_output
from ..prog import Program


def _emits(p):
    out = []
    for kind, data in p.effects:
        if kind == 'send' and data['chan'] == 'OUT':
            out.append(decode_output(data['msg']))
    return out


def c07_no_ack_on_failure(prog, n=3):
    """In a step in which an execution fails (build future returned Err / service spawn failed) the actor emits
    exactly one TargetExecutionError and no Ok."""
    res = []
    for kind in ('build', 'service'):
        for watch in (False, True):
            am = ActorModel(prog, kind, n - 2, n, watch, all_senders=True).build()
            npaths = 0
            bad = []
            for role, ai in am.arm_roles.items():
                for p in am.co.steps.get(ai, []):
                    npaths += 1
                    em = _emits(p)
                    errs = [e for e in em if e[0] == 'err']
                    oks = [e for e in em if e[0] == 'msg' and e[2][0] == 'Ok' and e[2][2] == am.me and e[3] is not False]
                    failed = any(k == 'spawn_failed' for k, d in p.effects)
                    if role == 'build_done':
                        c = z3.simplify(z3.And(p.cond if not isinstance(p.cond, bool) else z3.BoolVal(p.cond), z3.BitVec('ev_build_result', 2) == 3))
                        failed = failed or not z3.is_false(c)
                    if failed and (len(errs) != 1 or oks):
                        bad.append({'role': role, 'cond': str(p.cond)[:300], 'emits': [str(e) for e in em]})
                    if not failed and errs:
                        bad.append({'role': role, 'cond': str(p.cond)[:300], 'emits': [str(e) for e in em], 'why': 'error reported without a failure'})
            res.append({'name': 'step:no_acknowledgement_on_failure[%s%s]' % (kind, ' watch' if watch else ''), 'paths': npaths,
                        'verdict': 'unsat' if not bad else 'sat', 'counterexamples': bad[:3],
                        'functions': sorted(am.co.I.stats['fns'])})
    return res
