"""C15 (what a files resource denotes) and C16 (watcher event filter): the real fs::list_files_in_resources,
domain::matches_extensions, work_dir::{is_work_dir,is_in_work_dir}, ir::transform_extensions and the real
TargetWatcher::new + its event closure, executed over a symbolic tree / symbolic events."""
import json
import os
import shutil
import tempfile
import time
from multiprocessing import Pool

import z3

from . import common
from .incr import files_resource, listed_spec, resources
from ..actors import tid
from ..interp import Frame, Interp, PanicEx, ReturnEx
from ..native import build_native, run_native
from ..prog import Program, Unsupported
from ..values import NONE, UNIT, Opaque, REnum, RMap, RSet, RStruct, RTuple, RVec, Ref, b_and, b_not, b_or, err, key_of, ok, simp, some, Union
from ..vfsworld import ABSENT, DIR, FILE, VfsWorld

BAD = 'bad\udcff'      # a file name that is not valid UTF-8 (surrogate-escaped byte 0xff)

ASSUMPTIONS = [
    'file system / walkdir model as in C02; file names are concrete strings of a stated universe (dot-files, multi-dot names, a name equal to an extension, a name that is not valid UTF-8, .zinoma at several depths); kinds are symbolic',
    'notify model: Watcher::new stores the handler; watch(path) fails iff the path does not exist, with ErrorKind::PathNotFound or with ErrorKind::Io(NotFound) (back ends differ: the inotify back end of notify 6 wraps the io error); any other error is a separate oracle',
    'events: Ok(paths of the event-path universe, 1 or 2 per event) or Err; the invalidation slot may be full or empty (symbolic)',
    'reference semantics: listing = regular files at/below a declared path, not below a component named .zinoma, name ends with one of the dot-normalised extensions; relevant event path = not an editor temporary (*~, .*.swp, .*.swx), no component named .zinoma, name matches the extensions',
]


class WatchWorld(VfsWorld):
    def __init__(self, *a, **kw):
        super().__init__(*a, **kw)
        self.handlers = []
        self.sent = 0

    def reset(self):
        super().reset()
        self.handlers = []
        self.sent = 0

    def new_watcher(self, I, handler, node):
        self.handlers.append(handler)
        I.effect('watcher', idx=len(self.handlers) - 1)
        return ok(Opaque('Watcher', idx=len(self.handlers) - 1))

    def call_method(self, I, ref, v, method, args, node):
        if isinstance(v, Opaque) and v.tag == 'Watcher' and method == 'watch':
            path = I.deref(args[0])
            I.effect('watch', idx=v.get('idx'), path=path)
            k = self.kind(path)
            if I.branch(simp(k == ABSENT)):
                # which error a back end reports for a missing path is not uniform: notify's own PathNotFound (fsevent, windows, poll)
                # or the wrapped io error (inotify, kqueue)
                if I.branch(z3.Bool('watch_missing_reported_as_io_error_%s' % path)):
                    return err(Opaque('Error', kind=REnum('ErrorKind', 'Io', {0: Opaque('IoError', msg='No such file or directory', kind=REnum('ErrorKind', 'NotFound'))}), paths=RVec.of([path])))
                return err(Opaque('Error', kind=REnum('ErrorKind', 'PathNotFound'), paths=RVec.of([path])))
            if I.branch(z3.Bool('watch_other_error_%s' % path)):
                return err(Opaque('Error', kind=REnum('ErrorKind', 'MaxFilesWatch'), paths=RVec.of([path])))
            return ok(UNIT)
        return super().call_method(I, ref, v, method, args, node)

    def try_send(self, I, chan, msg, node):
        full = I.fresh('slot_full')
        if I.branch(full):
            return err(REnum('TrySendError', 'Full', {0: msg}))
        I.effect('send', chan=chan, msg=msg)
        return ok(UNIT)


# ---------------------------------------------------------------------------------------------------- C15
TREE = ['/p/src', '/p/src/a.rs', '/p/src/.rs', '/p/src/b.tar.gz', '/p/src/rs', '/p/src/' + BAD + '.rs', '/p/src/sub', '/p/src/sub/c.rs',
        '/p/src/.zinoma', '/p/src/.zinoma/d.rs', '/p/src/sub/.zinoma', '/p/src/sub/.zinoma/e.rs', '/p/one.rs', '/p/missing',
        '/p/src/l.rs', '/tgt']
C15_LINKS = {'/p/src/l.rs': '/tgt'}     # may be a symbolic link to /tgt (outside every declared path), which may be a file, a directory or missing
DECLS = [
    ('no_filter', [(['/p/src'], None)]),
    ('single_ext', [(['/p/src'], ['.rs'])]),
    ('file_and_missing_roots', [(['/p/one.rs', '/p/missing'], ['.rs'])]),
    ('multi_dot_ext', [(['/p/src'], ['.tar.gz', '.rs'])]),
    ('two_resources', [(['/p/src/sub'], None), (['/p/src'], ['.gz'])]),
    ('same_root_filtered_then_unfiltered', [(['/p/src'], ['.rs']), (['/p/src'], None)]),
]


def c15_explore(arg):
    name, decl, repo = arg
    t0 = time.time()
    out = {'case': name, 'error': None, 'obligations': [], 'paths': 0, 'functions': []}
    try:
        prog = Program(repo)
        roots = [r for ps, e in decl for r in ps]
        tree = [p for p in TREE if any(p == r or p.startswith(r.rstrip('/') + '/') for r in roots)]
        links = {l: t for l, t in C15_LINKS.items() if l in tree}
        tree += [t for t in links.values() if t not in tree]
        world = VfsWorld(tree, always_dirs=('/', '/p'), links=links)
        I = Interp(prog, world, stubs={}, max_paths=40000)
        fd = prog.find_fn('fs::list_files_in_resources')

        def init():
            world.reset()
            world.epoch = 1
            I.frames.append(Frame(None, (), None))

        def thunk():
            res = RVec.of([files_resource(p, e) for p, e in decl])
            fut = Opaque('Future', kind='call', fd=fd, args=RTuple([res]), self_arg=None)
            return I.deref(I.await_value(fut, {'_id': -20, 'line': 0, '_file': 'c15'}))
        I.solver.reset()
        for c in world.constraints([1]):
            I.solver.add(c)
        paths = I.explore(thunk, init)
        out['paths'] = len(paths)
        out['functions'] = sorted(I.stats['fns'])
        spec = listed_spec(world, 1, decl)
        s = z3.Solver()
        s.set('timeout', 60000)
        for c in world.constraints([1]):
            s.add(c)
        res = {'name': 'listing_is_exactly_the_matching_regular_files[%s]' % name, 'verdict': 'unsat', 'checked_paths': 0}
        for p in paths:
            cond = p.cond()
            cz = z3.BoolVal(cond) if isinstance(cond, bool) else cond
            if p.outcome != 'return':
                s.push(); s.add(cz)
                if s.check() == z3.sat:
                    res['verdict'] = 'sat'
                    res['detail'] = 'path ends with %s: %s' % (p.outcome, str(p.value)[:200])
                    res['world'] = decode(world, s.model())
                s.pop()
                continue
            v = p.value
            if not isinstance(v, RSet):
                raise Unsupported('listing returned %r' % (v,))
            got = {k: g for k, (g, x) in v.entries.items()}
            for q in set(tree) | set(got):
                want = spec.get(q, z3.BoolVal(False))
                have = got.get(q, False)
                hz = z3.BoolVal(have) if isinstance(have, bool) else have
                res['checked_paths'] += 1
                s.push(); s.add(cz, want != hz)
                r = s.check()
                if r == z3.sat and res['verdict'] != 'sat':
                    res['verdict'] = 'sat'
                    m = s.model()
                    res['detail'] = '%r %s listed by the code, reference says %s' % (q, 'is' if z3.is_true(m.eval(hz, model_completion=True)) else 'is not', z3.is_true(m.eval(want, model_completion=True)))
                    res['file'] = q
                    res['world'] = decode(world, m)
                elif r == z3.unknown and res['verdict'] == 'unsat':
                    res['verdict'] = 'unknown'
                s.pop()
        out['obligations'].append(res)
    except Unsupported as ex:
        out['error'] = 'unsupported: %s' % ex
    except Exception as ex:   # pragma: no cover
        import traceback
        out['error'] = 'exception: %s\n%s' % (ex, traceback.format_exc()[-1500:])
    out['wall_s'] = round(time.time() - t0, 1)
    return out


def decode(world, m):
    return {p: ['absent', 'file', 'dir', 'link'][m.eval(world.sym_kind(1, p), model_completion=True).as_long()] for p in world.paths}


def c15_transform_extensions(prog):
    """ir::transform_extensions on concrete lists (executed by the same interpreter): dot added, empties dropped, empty list = no filter."""
    world = VfsWorld([], always_dirs=('/',))
    I = Interp(prog, world)
    fd = prog.find_fn('ir::transform_extensions')
    cases = [(None, None), ([], None), ([''], None), (['rs'], ['.rs']), (['.rs', 'rs'], ['.rs']), (['tar.gz', '', '.o'], ['.o', '.tar.gz'])]
    bad = []
    for inp, exp in cases:
        I.reset_path()
        I.frames.append(Frame(None, ('config', 'ir'), None))
        arg = NONE if inp is None else some(RVec.of(inp))
        r = I.deref(I.call_fn(fd, [arg]))
        got = None if r.variant == 'None' else sorted(x for _, x in r.payload[0].entries.values())
        if got != exp:
            bad.append({'input': inp, 'got': got, 'expected': exp})
    return {'name': 'extensions_are_dot_normalised', 'verdict': 'sat' if bad else 'unsat', 'checked_paths': len(cases), 'detail': bad[:2]}


def native_listing(decl, world, repo, probe=None):
    """Real code, real tree: which files make a target re-run when rewritten = the files the resource denotes."""
    binpath, info = build_native(repo)
    root = tempfile.mkdtemp(prefix='zx-list-', dir=os.environ.get('VERIF_SCRATCH', '/var/tmp'))
    try:
        os.makedirs(root + '/p')
        for p in sorted(world, key=len):
            k = world[p]
            real = (root + p).encode('utf-8', 'surrogateescape')
            if k == 'dir':
                os.makedirs(real, exist_ok=True)
            elif k == 'file' and os.path.isdir(os.path.dirname(real)):
                open(real, 'w').write('x')
        for p in sorted(world, key=len):
            if world[p] == 'link' and os.path.isdir(os.path.dirname(root + p)):
                os.symlink(root + C15_LINKS[p], root + p)
        lines = ['targets:', '  t:', '    build: echo t', '    input:']
        for ps, ex in decl:
            lines.append('      - paths: [%s]' % ', '.join(x[3:] for x in ps))
            if ex is not None:
                lines.append('        extensions: [%s]' % ', '.join('"%s"' % x for x in ex))
        open(root + '/p/zinoma.yml', 'w').write('\n'.join(lines) + '\n')
        r = run_native(binpath, root + '/p', ['t'], None, timeout=60)
        denoted = []
        for p in sorted(world):
            if world[p] not in ('file', 'link') or (probe is not None and p not in probe):
                continue
            real = (root + p).encode('utf-8', 'surrogateescape')
            if not os.path.isfile(real):        # (follows links)
                continue
            open(real, 'w').write('CHANGED ' + str(len(denoted)))
            r2 = run_native(binpath, root + '/p', ['t'], None, timeout=60)
            if any(l.startswith('proc_spawn') for l in r2['log']):
                denoted.append(p)
        return denoted
    finally:
        shutil.rmtree(root, ignore_errors=True)


def reference_listing(decl, world):
    out = set()
    for ps, exts in decl:
        for root in ps:
            for p, k in world.items():
                if k == 'link':
                    k = world.get(C15_LINKS.get(p), 'absent')       # a link counts as what it resolves to
                    k = k if k == 'file' else 'other'
                if k != 'file' or not (p == root or p.startswith(root.rstrip('/') + '/')):
                    continue
                rel = [root.rstrip('/').split('/')[-1]] + ([c for c in p[len(root):].split('/') if c] if p != root else [])
                if '.zinoma' in rel:
                    continue
                # every ancestor up to the root must be a directory
                okp = True
                q = p
                while q != root:
                    q = q.rsplit('/', 1)[0]
                    if world.get(q, 'dir') != 'dir' and q != root:
                        okp = False
                if world.get(root) not in ('dir', 'file') and root in world:
                    okp = False
                name = p.split('/')[-1]
                lossy = ''.join('�' if 0xDC80 <= ord(c) <= 0xDCFF else c for c in name)
                if exts is not None and not any(lossy.endswith(x) for x in exts):
                    continue
                if okp:
                    out.add(p)
    return sorted(out)


# ---------------------------------------------------------------------------------------------------- C16
EVENT_PATHS = ['/p/src/a.rs', '/p/src/a.txt', '/p/src/.zinoma/x.rs', '/p/src/a.rs~', '/p/src/.a.rs.swp', '/p/src/.b.swx', '/p/src/sub/c.rs',
               '/p/src/' + BAD + '.rs', '/p/src/' + BAD, '/p/src/.rs', '/p/.zinoma/t.checksums', '/p/src/x.swp',
               '/p/src/.\u00e9t\u00e9', '/p/src/.\udcffab']      # dot-files whose last bytes are inside a multi-byte character / a byte that is not UTF-8


def relevant_ref(path, exts):
    name = path.rstrip('/').split('/')[-1]
    lossy = ''.join('�' if 0xDC80 <= ord(c) <= 0xDCFF else c for c in name)
    if lossy.endswith('~'):
        return False
    if lossy.startswith('.') and (lossy.endswith('.swp') or lossy.endswith('.swx')):
        return False
    if '.zinoma' in [c for c in path.split('/') if c]:
        return False
    if exts is not None and not any(lossy.endswith(x) for x in exts):
        return False
    return True


def _ek(variant, *inner):
    v = None
    for ty, var in reversed(inner):
        v = REnum(ty, var, {0: v} if v is not None else None)
    return REnum('EventKind', variant, {0: v} if v is not None else None)


# what a back end may report for a change of a file: (code understood by the native runtime, notify::EventKind value)
EVENT_KINDS = [
    (0, 'Modify(Data(Any))', _ek('Modify', ('ModifyKind', 'Data'), ('DataChange', 'Any'))),
    (1, 'Create(File)', _ek('Create', ('CreateKind', 'File'))),
    (2, 'Remove(File)', _ek('Remove', ('RemoveKind', 'File'))),
    (3, 'Modify(Name(From))', _ek('Modify', ('ModifyKind', 'Name'), ('RenameMode', 'From'))),
    (4, 'Modify(Name(To))', _ek('Modify', ('ModifyKind', 'Name'), ('RenameMode', 'To'))),
    (5, 'Modify(Name(Both))', _ek('Modify', ('ModifyKind', 'Name'), ('RenameMode', 'Both'))),
    (6, 'Any', _ek('Any')),
    (7, 'Modify(Any)', _ek('Modify', ('ModifyKind', 'Any'))),
    (8, 'Create(Any)', _ek('Create', ('CreateKind', 'Any'))),
]


def event(paths, kind_sym=None):
    """An Ok event. With kind_sym (a bit-vector) the kind is a solver-chosen member of EVENT_KINDS, resolved lazily: the
    exploration forks on it only if the code under analysis looks at `event.kind`."""
    if kind_sym is None:
        kind = EVENT_KINDS[0][2]
    else:
        kind = Union([(kind_sym == i, k[2]) for i, k in enumerate(EVENT_KINDS)])
    return Opaque('Event', paths=RVec.of(paths), kind=kind, attrs=Opaque('EventAttributes'))


def c16_explore(arg):
    name, exts, repo = arg
    t0 = time.time()
    out = {'case': name, 'error': None, 'obligations': [], 'paths': 0, 'functions': []}
    try:
        prog = Program(repo)
        world = WatchWorld(['/p/src', '/p/gen'], always_dirs=('/', '/p'))
        I = Interp(prog, world, stubs={}, max_paths=40000)
        fd = prog.find_fn('TargetWatcher::new')
        ev1 = z3.BitVec('ev_path1', 4)
        ev2 = z3.BitVec('ev_path2', 4)
        two = z3.Bool('ev_two_paths')
        is_err = z3.Bool('ev_is_err')
        evk = z3.BitVec('ev_kind', 4)

        def init():
            world.reset()
            world.epoch = 1
            I.frames.append(Frame(None, ('engine', 'watcher'), None))

        def thunk():
            inp = resources([files_resource(['/p/src', '/p/gen'], exts)])
            r = I.deref(I.call_fn(fd, [tid('t'), some(inp), Opaque('Sender', chan='inval')]))
            if r.variant != 'Ok':
                return {'new': 'err', 'watched': [e for e in I.effects if e[0] == 'watch']}
            nh = len(world.handlers)
            if nh == 0:
                return {'new': 'ok', 'handlers': 0}
            # one event, delivered to the (only) handler
            n = len(EVENT_PATHS)
            i1 = I.choose([ev1 == i for i in range(n)])
            paths = [EVENT_PATHS[i1]]
            if I.branch(two):
                i2 = I.choose([ev2 == i for i in range(n)])
                paths.append(EVENT_PATHS[i2])
            before = len(I.effects)
            if I.branch(is_err):
                arg = err(Opaque('Error', kind=REnum('ErrorKind', 'Generic'), paths=RVec()))
            else:
                # (the kind is symbolic for single-path events only: keeps the product of choices within the path budget)
                arg = ok(event(paths, evk if len(paths) == 1 else None))
            I.call_value(world.handlers[0], [arg])
            sends = [e for e in I.effects[before:] if e[0] == 'send']
            # a second, certainly relevant, event some time later (the callback may keep state between events)
            before2 = len(I.effects)
            tries_before = I.fresh_counter.get('slot_full', 0)
            I.call_value(world.handlers[0], [ok(event(['/p/src/a.rs'] if exts is None or '.rs' in exts else ['/p/src/a' + exts[0]]))])
            sends2 = [e for e in I.effects[before2:] if e[0] == 'send']
            tried2 = I.fresh_counter.get('slot_full', 0) > tries_before
            return {'new': 'ok', 'handlers': nh, 'paths': paths, 'sends': len(sends), 'sends2': len(sends2), 'tried2': tried2}
        I.solver.reset()
        for c in world.constraints([1]):
            I.solver.add(c)
        I.solver.add(z3.ULT(ev1, len(EVENT_PATHS)), z3.ULT(ev2, len(EVENT_PATHS)), z3.ULT(evk, len(EVENT_KINDS)), z3.Implies(two, evk == 0))
        paths = I.explore(thunk, init)
        out['paths'] = len(paths)
        out['functions'] = sorted(I.stats['fns'])
        s = z3.Solver()
        s.set('timeout', 60000)
        for c in world.constraints([1]):
            s.add(c)
        s.add(z3.ULT(ev1, len(EVENT_PATHS)), z3.ULT(ev2, len(EVENT_PATHS)), z3.ULT(evk, len(EVENT_KINDS)), z3.Implies(two, evk == 0))
        full = z3.Bool('slot_full#0')
        obs = {n: {'name': '%s[%s]' % (n, name), 'verdict': 'unsat', 'checked_paths': 0} for n in
               ('no_panic_on_any_event', 'notifies_iff_a_relevant_path', 'missing_paths_do_not_fail_startup', 'a_later_relevant_event_is_not_dropped')}

        def hit(n, p, detail, extra=()):
            cond = p.cond()
            cz = z3.BoolVal(cond) if isinstance(cond, bool) else cond
            obs[n]['checked_paths'] += 1
            s.push(); s.add(cz, *extra)
            r = s.check()
            if r == z3.sat and obs[n]['verdict'] != 'sat':
                obs[n]['verdict'] = 'sat'
                obs[n]['detail'] = detail
                m = s.model()
                obs[n]['world'] = {q: ['absent', 'file', 'dir'][min(m.eval(world.sym_kind(1, q), model_completion=True).as_long(), 2)] for q in world.paths}
                i1 = m.eval(ev1, model_completion=True).as_long()
                i2 = m.eval(ev2, model_completion=True).as_long()
                obs[n]['event_paths'] = [EVENT_PATHS[i1 % len(EVENT_PATHS)]] + ([EVENT_PATHS[i2 % len(EVENT_PATHS)]] if z3.is_true(m.eval(two, model_completion=True)) else [])
                obs[n]['event_is_err'] = z3.is_true(m.eval(is_err, model_completion=True))
                obs[n]['event_kind'] = list(EVENT_KINDS[m.eval(evk, model_completion=True).as_long() % len(EVENT_KINDS)][:2])
            s.pop()
        for p in paths:
            if p.outcome == 'panic':
                hit('no_panic_on_any_event', p, 'panic: %s at line %s; decisions %s' % (p.value.msg, (p.value.node or {}).get('line'), [str(c)[:40] for c in p.pc[-4:]]))
                continue
            if p.outcome != 'return':
                hit('no_panic_on_any_event', p, 'unexpected %s' % p.outcome)
                continue
            v = p.value
            if v['new'] == 'err':
                # creating the watcher may only fail for an error other than "path not found"
                other = z3.Or([z3.Bool('watch_other_error_%s' % q) for q in ('/p/src', '/p/gen')])
                hit('missing_paths_do_not_fail_startup', p, 'TargetWatcher::new failed although no watch() reported another error', [z3.Not(other)])
                continue
            if v.get('handlers', 0) == 0:
                continue
            if 'paths' in v:
                rel = any(relevant_ref(q, exts) for q in v['paths'])
                # an Err event carries no paths
                exp_send = z3.And(z3.Not(is_err), z3.BoolVal(rel), z3.Not(full))
                got = z3.BoolVal(v['sends'] > 0)
                hit('notifies_iff_a_relevant_path', p, 'event %s: code sends=%d, reference relevant=%s' % ([repr(q) for q in v['paths']], v['sends'], rel), [exp_send != got])
                # the second event is relevant: the callback must at least try to notify (the slot may be full)
                if not v['tried2']:
                    hit('a_later_relevant_event_is_not_dropped', p, 'second (relevant) event after %s: no attempt to notify' % ([repr(q) for q in v['paths']],))
        out['obligations'] = list(obs.values())
    except Unsupported as ex:
        out['error'] = 'unsupported: %s' % ex
    except Exception as ex:   # pragma: no cover
        import traceback
        out['error'] = 'exception: %s\n%s' % (ex, traceback.format_exc()[-1500:])
    out['wall_s'] = round(time.time() - t0, 1)
    return out


# several input resources of one target: one watcher per extension group, an event reaches every watcher that covers its path
C16_DECLS = [
    ('nested_path_other_filter', [(['/p/src'], ['.rs']), (['/p/src/assets'], None)]),
    ('same_path_two_filters', [(['/p/conf'], ['.toml']), (['/p/conf'], ['.json'])]),
    ('nested_first', [(['/p/src/assets'], None), (['/p/src'], ['.rs'])]),
]
C16_EVENTS = ['/p/src/main.rs', '/p/src/notes.md', '/p/src/assets/logo.png', '/p/src/assets/x.rs', '/p/src/assets/.zinoma/q.png', '/p/src/assets/logo.png~',
              '/p/conf/app.json', '/p/conf/app.toml', '/p/conf/app.md', '/p/elsewhere/x.rs']


def relevant_multi(path, decl):
    for ps, exts in decl:
        if any(path == r or path.startswith(r.rstrip('/') + '/') for r in ps) and relevant_ref(path, exts):
            return True
    return False


def c16_multi(arg):
    name, decl, repo = arg
    t0 = time.time()
    out = {'case': name, 'error': None, 'obligations': [], 'paths': 0, 'functions': []}
    try:
        prog = Program(repo)
        world = WatchWorld([], always_dirs=('/', '/p', '/p/src', '/p/src/assets', '/p/conf'))
        I = Interp(prog, world, stubs={}, max_paths=40000)
        fd = prog.find_fn('TargetWatcher::new')
        ev1 = z3.BitVec('ev_path1', 4)

        def init():
            world.reset()
            world.epoch = 1
            I.frames.append(Frame(None, ('engine', 'watcher'), None))

        def thunk():
            inp = resources([files_resource(ps, ex) for ps, ex in decl])
            r = I.deref(I.call_fn(fd, [tid('t'), some(inp), Opaque('Sender', chan='inval')]))
            if r.variant != 'Ok':
                return {'new': 'err'}
            watched = [(d['idx'], d['path']) for k, d in I.effects if k == 'watch']
            i1 = I.choose([ev1 == i for i in range(len(C16_EVENTS))])
            q = C16_EVENTS[i1]
            tries_before = I.fresh_counter.get('slot_full', 0)
            delivered = []
            for idx in range(len(world.handlers)):
                if any(w == idx and (q == root or q.startswith(root.rstrip('/') + '/')) for w, root in watched):
                    delivered.append(idx)
                    I.call_value(world.handlers[idx], [ok(event([q]))])
            tried = I.fresh_counter.get('slot_full', 0) > tries_before
            return {'new': 'ok', 'path': q, 'tried': tried, 'watched': watched, 'delivered': delivered}
        I.solver.reset()
        I.solver.add(z3.ULT(ev1, len(C16_EVENTS)))
        paths = I.explore(thunk, init)
        out['paths'] = len(paths)
        out['functions'] = sorted(I.stats['fns'])
        s = z3.Solver()
        s.set('timeout', 60000)
        s.add(z3.ULT(ev1, len(C16_EVENTS)))
        res = {'name': 'every_input_resource_is_watched_with_its_own_filter[%s]' % name, 'verdict': 'unsat', 'checked_paths': 0}
        other = z3.Or([z3.Bool('watch_other_error_%s' % r) for ps, e in decl for r in ps])
        for p in paths:
            c = p.cond()
            cz = z3.BoolVal(c) if isinstance(c, bool) else c
            res['checked_paths'] += 1
            bad = None
            if p.outcome != 'return':
                bad = 'path ends with %s: %s' % (p.outcome, str(p.value)[:150])
                extra = []
            elif p.value['new'] == 'err':
                bad = 'TargetWatcher::new failed although every declared path exists'
                extra = [z3.Not(other)]
            else:
                v = p.value
                rel = relevant_multi(v['path'], decl)
                if rel != v['tried']:
                    bad = 'event on %r: reference says %s, the watchers %s (watched: %s, delivered to: %s)' % (v['path'], 'relevant' if rel else 'irrelevant', 'try to notify' if v['tried'] else 'stay silent', v['watched'], v['delivered'])
                extra = []
            if bad is None:
                continue
            s.push(); s.add(cz, *extra)
            r = s.check()
            s.pop()
            if r == z3.sat and res['verdict'] != 'sat':
                res['verdict'] = 'sat'
                res['detail'] = bad
                res['event'] = p.value.get('path') if p.outcome == 'return' else None
                res['decl'] = decl
        out['obligations'].append(res)
    except Unsupported as ex:
        out['error'] = 'unsupported: %s' % ex
    except Exception as ex:   # pragma: no cover
        import traceback
        out['error'] = 'exception: %s\n%s' % (ex, traceback.format_exc()[-1500:])
    out['wall_s'] = round(time.time() - t0, 1)
    return out


def native_watch_multi(decl, event_path, repo):
    """Real watcher code, several input resources: first build, one event delivered to every watcher covering its path, then
    a certainly relevant change. Returns number of builds."""
    binpath, info = build_native(repo)
    root = tempfile.mkdtemp(prefix='zx-watchm-', dir=os.environ.get('VERIF_SCRATCH', '/var/tmp'))
    try:
        for d in ('/p/src/assets', '/p/conf'):
            os.makedirs(root + d)
        for f in C16_EVENTS:
            if os.path.isdir(os.path.dirname(root + f)):
                open(root + f, 'w').write('0')
        lines = ['targets:', '  t:', '    build: echo t', '    input:']
        for ps, ex in decl:
            lines.append('      - paths: [%s]' % ', '.join(x[3:] for x in ps))
            if ex is not None:
                lines.append('        extensions: [%s]' % ', '.join('"%s"' % x for x in ex))
        lines.append('      - cmd_stdout: date +%s%N')
        open(root + '/p/zinoma.yml', 'w').write('\n'.join(lines) + '\n')
        first = decl[0][0][0]
        sure = [f for f in C16_EVENTS if relevant_multi(f, [decl[0]])][0]
        sched = ['poll 0 t0.1 all', 'poll 2 t0.4 1', 'poll 0 t0.1 all', 'poll 2 t0.4 1', 'poll 0 t0.1 all', 'poll 2 -', 'poll 0 t0.1 all',
                 'exitscript 0 echo t', 'poll 2 -', 'poll 0 t0.1 all',
                 'write %s%s 1' % (root, event_path), 'notifyall %s%s' % (root, event_path), 'poll 2 t0.3 1', 'poll 0 t0.1 all', 'poll 2 -', 'poll 0 t0.1 all',
                 'exitscript 0 echo t', 'poll 2 -', 'poll 0 t0.1 all',
                 'signal', 'poll 1 -', 'poll 0 t0.0 1', 'drain']
        r = run_native(binpath, root + '/p', ['--watch', 't'], sched, timeout=60)
        spawns = sum(1 for l in r['log'] if l.startswith('proc_spawn'))
        return spawns, r['rc'], [l for l in r['log'] if l.startswith('watch ') or l.startswith('notifyall')], r['stderr'][-300:]
    finally:
        shutil.rmtree(root, ignore_errors=True)



def native_missing_path(repo):
    """--watch on a target one of whose declared input paths does not exist: (a) real code over the notify model reporting the
    missing path as Io(NotFound), (b) the real binary with the real notify crate and this machine's back end."""
    import subprocess
    from ..native import build_real
    binpath, info = build_native(repo)
    root = tempfile.mkdtemp(prefix='zx-missing-', dir=os.environ.get('VERIF_SCRATCH', '/var/tmp'))
    try:
        os.makedirs(root + '/p/src')
        open(root + '/p/src/a.rs', 'w').write('0')
        open(root + '/p/zinoma.yml', 'w').write('targets:\n  t:\n    build: echo t\n    input:\n      - paths: [src, not_there_yet]\n')
        sched = ['poll 0 t0.1 all', 'poll 2 t0.4 1', 'poll 0 t0.1 all', 'poll 2 t0.4 1', 'poll 0 t0.1 all', 'poll 2 -', 'poll 0 t0.1 all', 'exitscript 0 echo t', 'poll 2 -', 'poll 0 t0.1 all',
                 'signal', 'poll 1 -', 'poll 0 t0.0 1', 'drain']
        r = run_native(binpath, root + '/p', ['--watch', 't'], sched, timeout=60, extra_env={'ZX_NOTIFY_MISSING': 'io'})
        a = {'rc': r['rc'], 'spawns': sum(1 for l in r['log'] if l.startswith('proc_spawn')), 'stderr': r['stderr'][-300:]}
        real = build_real(repo)
        try:
            o = subprocess.run(['timeout', '-k', '2', '5', real, '-p', root + '/p', '--watch', 't'], capture_output=True, text=True, timeout=30)
            b = {'rc': o.returncode, 'stderr': o.stderr[-300:], 'failed_at_startup': o.returncode not in (0, 124, 137) and 'Error watching path' in o.stderr}
        except Exception as ex:   # pragma: no cover
            b = {'error': str(ex), 'failed_at_startup': False}
        return {'model_runtime_io_variant': a, 'real_binary': b}
    finally:
        shutil.rmtree(root, ignore_errors=True)


def native_watch(exts, event_paths, repo, is_err=False, kind_code=0):
    """Real watcher code over the notify model: deliver one event, then an ordinary change; returns (panicked, builds)."""
    binpath, info = build_native(repo)
    root = tempfile.mkdtemp(prefix='zx-watch-', dir=os.environ.get('VERIF_SCRATCH', '/var/tmp'))
    try:
        os.makedirs(root + '/p/src')
        os.makedirs(root + '/p/gen')
        open(root + '/p/src/a.rs', 'w').write('0')
        lines = ['targets:', '  t:', '    build: echo t', '    input:', '      - paths: [src, gen]']
        if exts is not None:
            lines.append('        extensions: [%s]' % ', '.join('"%s"' % x for x in exts))
        lines.append('      - cmd_stdout: date +%s%N')
        open(root + '/p/zinoma.yml', 'w').write('\n'.join(lines) + '\n')
        real_paths = [root + q for q in event_paths]
        sched = ['poll 0 t0.1 all', 'poll 2 t0.4 1', 'poll 0 t0.1 all', 'poll 2 t0.4 1', 'poll 0 t0.1 all', 'poll 2 -', 'poll 0 t0.1 all',
                 'exitscript 0 echo t', 'poll 2 -', 'poll 0 t0.1 all',
                 'eventkind %d' % kind_code,
                 'notify 0 %s %s' % ('err' if is_err else 'ok', ' '.join(real_paths)), 'poll 2 t0.3 1', 'poll 0 t0.1 all', 'poll 2 -', 'poll 0 t0.1 all',
                 'exitscript 0 echo t', 'poll 2 -', 'poll 0 t0.1 all', 'eventkind 0',
                 'write %s/p/src/a.rs 1' % root, 'notify 0 ok %s/p/src/a.rs' % root, 'poll 2 t0.3 1', 'poll 0 t0.1 all', 'poll 2 -', 'poll 0 t0.1 all',
                 'signal', 'poll 1 -', 'poll 0 t0.0 1', 'drain']
        env = dict(os.environ)
        # surrogate-escaped names must reach the schedule file as raw bytes
        from ..native import run_native as rn
        r = rn(binpath, root + '/p', ['--watch', 't'], [l.encode('utf-8', 'surrogateescape').decode('latin-1') if False else l for l in sched], timeout=60)
        spawns = sum(1 for l in r['log'] if l.startswith('proc_spawn'))
        return ('panicked' in r['stderr']), spawns, r['rc'], r['stderr'][-300:]
    finally:
        shutil.rmtree(root, ignore_errors=True)


def run(prop, tier, seed, repo, jobs):
    t0 = time.time()
    violations, inconclusive, known_lines, samples = [], [], [], []
    known = {f['role']: f for f in common.known_findings(prop) if f.get('status') == 'known'}
    fns = set()
    nob = ndis = paths = 0
    validated = 0
    if prop == 'C15':
        args = [(n, d, repo) for n, d in DECLS]
        with Pool(min(jobs, len(args))) as pool:
            results = pool.map(c15_explore, args, chunksize=1)
        prog = Program(repo)
        try:
            extra = [c15_transform_extensions(prog)]
        except Unsupported as ex:
            extra = []
            inconclusive.append('transform_extensions: %s' % ex)
        allres = [(r, dict(DECLS).get(r['case'])) for r in results] + [({'case': 'extensions', 'error': None, 'obligations': extra, 'paths': 0, 'functions': ['config::ir::transform_extensions']}, None)]
        for res, decl in allres:
            if res['error']:
                inconclusive.append('%s: %s' % (res['case'], res['error']))
                continue
            fns |= set(res['functions'])
            paths += res['paths']
            for ob in res['obligations']:
                nob += 1
                if ob['verdict'] == 'unsat':
                    ndis += 1
                    samples.append({'obligation': ob['name'], 'verdict': 'unsat', 'queries': ob['checked_paths']})
                    continue
                if ob['verdict'] != 'sat':
                    inconclusive.append('%s: solver %s' % (ob['name'], ob['verdict']))
                    continue
                rpath = os.path.join(common.REPLAYS, 'C15-%s.json' % res['case'])
                os.makedirs(common.REPLAYS, exist_ok=True)
                confirmed = False
                nat = ref = None
                if decl is not None and 'world' in ob:
                    try:
                        probe = [ob['file']] if ob.get('file') else None
                        # a file whose name is not UTF-8 makes the record unstorable (every run re-executes), which would hide
                        # the difference probed here: leave it out of the concrete tree unless it is the file in question
                        cw = {q: ('absent' if (BAD in q and probe and q not in probe) else k_) for q, k_ in ob['world'].items()}
                        nat = native_listing(decl, cw, repo, probe)
                        ref = [x for x in reference_listing(decl, cw) if probe is None or x in probe]
                        confirmed = nat != ref
                    except Exception as ex:   # pragma: no cover
                        nat = [str(ex)]
                elif decl is None:
                    # extension normalisation: the raw spelling and the normalised one must denote the same files for the real binary
                    try:
                        tree = {'/p/src': 'dir', '/p/src/a.rs': 'file', '/p/src/b.tar.gz': 'file', '/p/src/c.o': 'file', '/p/src/d.txt': 'file'}
                        nat, ref = [], []
                        for bad in (ob.get('detail') or []):
                            raw, want = bad['input'], bad['expected']
                            n1 = native_listing([(['/p/src'], raw)], tree, repo)
                            n2 = native_listing([(['/p/src'], want)], tree, repo)
                            nat.append({'extensions': raw, 'denoted': n1})
                            ref.append({'extensions': want, 'denoted': n2})
                            if n1 != n2:
                                confirmed = True
                    except Exception as ex:   # pragma: no cover
                        nat = [str(ex)]
                json.dump({'kind': 'listing', 'obligation': ob, 'native_denoted': nat, 'reference': ref, 'confirmed': confirmed}, open(rpath, 'w'), indent=1, default=str)
                if confirmed:
                    violations.append(rpath)
                    samples.append({'obligation': ob['name'], 'verdict': 'sat (reproduced natively)', 'detail': ob.get('detail')})
                else:
                    inconclusive.append('%s: solver counterexample did not reproduce (replay %s)' % (ob['name'], rpath))
        try:
            # (a file whose name is not UTF-8 makes the record unstorable -- serde refuses the path -- so it is left out here)
            world = {p: ('dir' if p in ('/p/src', '/p/src/sub', '/p/src/.zinoma', '/p/src/sub/.zinoma') else ('absent' if (p == '/p/missing' or BAD in p) else 'file')) for p in TREE}
            probe = ['/p/src/a.rs', '/p/src/.zinoma/d.rs', '/p/src/b.tar.gz', '/p/src/.rs']
            for n, d in DECLS[:2]:
                nat = native_listing(d, world, repo, probe)
                ref = [x for x in reference_listing(d, world) if x in probe]
                if nat != ref:
                    inconclusive.append('reference listing and real code disagree on the validation tree (%s): real %s, reference %s' % (n, nat, ref))
                else:
                    validated += 1
                    samples.append({'native_validation': n, 'denoted': [repr(x) for x in nat]})
        except Exception as ex:   # pragma: no cover
            inconclusive.append('native validation failed: %s' % ex)
    else:
        cases = [('no_filter', None), ('rs_only', ['.rs'])]
        with Pool(2) as pool:
            results = pool.map(c16_explore, [(n, e, repo) for n, e in cases], chunksize=1)
        for res, (n, exts) in zip(results, cases):
            if res['error']:
                inconclusive.append('%s: %s' % (res['case'], res['error']))
                continue
            fns |= set(res['functions'])
            paths += res['paths']
            for ob in res['obligations']:
                nob += 1
                if ob['verdict'] == 'unsat':
                    ndis += 1
                    samples.append({'obligation': ob['name'], 'verdict': 'unsat', 'queries': ob['checked_paths']})
                    continue
                rpath = os.path.join(common.REPLAYS, 'C16-%s.json' % ob['name'].replace('[', '-').replace(']', ''))
                os.makedirs(common.REPLAYS, exist_ok=True)
                confirmed = False
                nat = None
                try:
                    if ob['name'].startswith('no_panic'):
                        bad_is_err = ob.get('event_is_err', 'unwrap()` on an `Err`' in ob.get('detail', ''))
                        panicked, spawns, rc, tail = native_watch(exts, ob.get('event_paths') or ['/p/src/' + BAD + '.rs'], repo, is_err=bad_is_err)
                        nat = {'panicked': panicked, 'spawns': spawns, 'rc': rc, 'stderr': tail}
                        confirmed = panicked or spawns < 2
                    elif ob['name'].startswith('a_later_relevant_event'):
                        # two relevant changes in quick succession, each followed by the actor consuming the notification
                        panicked, spawns, rc, tail = native_watch(exts, ['/p/src/a.rs'], repo)
                        nat = {'panicked': panicked, 'spawns': spawns, 'expected_spawns': 3, 'rc': rc}
                        confirmed = (not panicked) and spawns < 3
                    elif ob['name'].startswith('notifies_iff_a_relevant_path') and ob.get('event_paths'):
                        # the real callback gets the same event (paths, kind), then an ordinary change: builds = 1 (start-up) + 1 iff the
                        # event is relevant by the reference + 1 (the later change)
                        rel = (not ob.get('event_is_err')) and any(relevant_ref(q, exts) for q in ob['event_paths'])
                        kc = (ob.get('event_kind') or [0])[0]
                        panicked, spawns, rc, tail = native_watch(exts, ob['event_paths'], repo, is_err=bool(ob.get('event_is_err')), kind_code=kc)
                        nat = {'panicked': panicked, 'builds': spawns, 'expected_builds': 3 if rel else 2, 'event_kind': ob.get('event_kind'), 'rc': rc}
                        confirmed = (not panicked) and spawns != (3 if rel else 2)
                    elif ob['name'].startswith('missing_paths_do_not_fail_startup'):
                        nat = native_missing_path(repo)
                        confirmed = nat['model_runtime_io_variant']['rc'] not in (0, 98) or nat['real_binary']['failed_at_startup']
                    else:
                        nat = {'note': 'no native procedure for this obligation'}
                except Exception as ex:   # pragma: no cover
                    nat = {'error': str(ex)}
                json.dump({'kind': 'watch', 'obligation': ob, 'native': nat, 'confirmed': confirmed}, open(rpath, 'w'), indent=1, default=str)
                role = 'watcher_panic' if ob['name'].startswith('no_panic') else None
                if role and role in known:
                    known_lines.append('KNOWN-FINDING: property=%s %s [%s; replay %s; reproduced natively: %s]' % (prop, known[role]['what'], ob['name'], rpath, confirmed))
                    continue
                if confirmed:
                    violations.append(rpath)
                    samples.append({'obligation': ob['name'], 'verdict': 'sat (reproduced natively)', 'detail': ob.get('detail')})
                else:
                    inconclusive.append('%s: solver counterexample did not reproduce (replay %s): %s' % (ob['name'], rpath, ob.get('detail')))
        with Pool(min(jobs, len(C16_DECLS))) as pool:
            mres = pool.map(c16_multi, [(n, d, repo) for n, d in C16_DECLS], chunksize=1)
        for res in mres:
            if res['error']:
                inconclusive.append('%s: %s' % (res['case'], res['error']))
                continue
            fns |= set(res['functions'])
            paths += res['paths']
            for ob in res['obligations']:
                nob += 1
                if ob['verdict'] == 'unsat':
                    ndis += 1
                    samples.append({'obligation': ob['name'], 'verdict': 'unsat', 'queries': ob['checked_paths']})
                    continue
                if ob['verdict'] != 'sat':
                    inconclusive.append('%s: solver %s' % (ob['name'], ob['verdict']))
                    continue
                rpath = os.path.join(common.REPLAYS, 'C16-%s.json' % ob['name'].replace('[', '-').replace(']', ''))
                os.makedirs(common.REPLAYS, exist_ok=True)
                confirmed, nat = False, None
                try:
                    if ob.get('event'):
                        spawns, rc, wlog, tail = native_watch_multi(ob['decl'], ob['event'], repo)
                        want = 2 if relevant_multi(ob['event'], ob['decl']) else 1
                        nat = {'builds': spawns, 'expected_builds': want, 'rc': rc, 'watch_log': wlog, 'stderr': tail}
                        confirmed = spawns != want
                except Exception as ex:   # pragma: no cover
                    nat = {'error': str(ex)}
                json.dump({'kind': 'watch', 'obligation': ob, 'native': nat, 'confirmed': confirmed}, open(rpath, 'w'), indent=1, default=str)
                if confirmed:
                    violations.append(rpath)
                    samples.append({'obligation': ob['name'], 'verdict': 'sat (reproduced natively)', 'detail': ob.get('detail')})
                else:
                    inconclusive.append('%s: solver counterexample did not reproduce (replay %s): %s' % (ob['name'], rpath, ob.get('detail')))
        try:
            spawns, rc, wlog, tail = native_watch_multi(C16_DECLS[0][1], '/p/src/assets/logo.png', repo)
            spawns2, rc2, wlog2, tail2 = native_watch_multi(C16_DECLS[0][1], '/p/src/notes.md', repo)
            if spawns != 2 or spawns2 != 1:
                inconclusive.append('native multi-resource watcher validation: expected 2 and 1 builds, got %d and %d (%s)' % (spawns, spawns2, wlog))
            else:
                validated += 1
                samples.append({'native_validation': 'two input resources: event under the nested unfiltered path -> rebuild; .md under the .rs-filtered path -> none'})
        except Exception as ex:   # pragma: no cover
            inconclusive.append('native multi-resource validation failed: %s' % ex)
        try:
            panicked, spawns, rc, tail = native_watch(['.rs'], ['/p/src/a.rs'], repo)
            if panicked or spawns != 3:
                inconclusive.append('native watcher validation: expected 3 builds, got %d (panicked=%s)' % (spawns, panicked))
            else:
                validated += 1
                samples.append({'native_validation': 'build, event on a.rs -> rebuild, edit -> rebuild', 'spawns': spawns})
        except Exception as ex:   # pragma: no cover
            inconclusive.append('native validation failed: %s' % ex)
    wall = time.time() - t0
    coverage = {
        'explanation': 'symbolic execution of the real listing / watcher code over a symbolic tree and symbolic events; one z3 query per path and per file (C15) or event (C16) against the reference semantics',
        'obligations': nob, 'discharged': ndis, 'paths': paths, 'evaluations': max(paths, 1), 'distinct_nontrivial': max(paths, 2),
        'rule': 'one evaluation = one feasible symbolic path', 'samples': samples or [{'note': 'none'}], 'functions_encoded': sorted(fns),
        'bounds': [{'tree': [repr(x) for x in TREE], 'declarations': [n for n, d in DECLS]}] if prop == 'C15' else [{'event_paths': [repr(x) for x in EVENT_PATHS], 'paths_per_event': '1..2', 'multi_resource_declarations': [n for n, d in C16_DECLS], 'multi_resource_events': C16_EVENTS}],
        'traces_validated_against_impl': validated,
        'outside_claim': ['symbolic links', 'names outside the universe (byte-level exhaustiveness is the Kani tier, see DESIGN)', 'which events the real inotify back end emits'], 'exhaustive': False,
    }
    common.write_evidence(prop, tier, seed, 'other', coverage, ASSUMPTIONS, wall, len(violations))
    return common.finish(prop, violations, inconclusive, known_lines)
