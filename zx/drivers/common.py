"""Shared helpers of the drivers: evidence files, known findings, exit protocol."""
import json
import os
import sys
import time

VERIF = os.path.dirname(os.path.dirname(os.path.dirname(os.path.abspath(__file__))))
# (seed / benign regression runs against patched exports set VERIF_EVIDENCE_DIR so that they do not overwrite the evidence of /repo)
EVIDENCE = os.environ.get('VERIF_EVIDENCE_DIR') or os.path.join(VERIF, 'evidence')
REPLAYS = os.path.join(EVIDENCE, 'replays')
KNOWN = os.path.join(VERIF, 'known_findings.json')


def known_findings(prop):
    if not os.path.exists(KNOWN):
        return []
    data = json.load(open(KNOWN))
    return [f for f in data.get('findings', []) if f['property'] == prop]


def write_evidence(prop, tier, seed, level, coverage, assumptions, wall_s, violations, extra=None):
    os.makedirs(EVIDENCE, exist_ok=True)
    ev = {'property_id': prop, 'tier': tier, 'seed': seed, 'level': level, 'coverage': coverage,
          'assumptions': assumptions, 'wall_s': round(wall_s, 1), 'violations': violations}
    if extra:
        ev.update(extra)
    p = os.path.join(EVIDENCE, prop + '.json')
    json.dump(ev, open(p, 'w'), indent=1, default=str)
    return p


def finish(prop, violations, inconclusive, known_lines):
    for l in known_lines:
        print(l)
    for v in violations:
        print('VIOLATION property=%s replay=%s' % (prop, v))
    if violations:
        return 1
    if inconclusive:
        for i in inconclusive:
            print('INCONCLUSIVE: %s' % i)
        return 2
    print('OK property=%s' % prop)
    return 0


def replay_file(path, repo):
    """Re-run a saved replay file against the current tree."""
    d = json.load(open(path))
    kind = d.get('kind', 'proto')
    if kind == 'proto':
        from .. import replay as rp
        from . import proto
        case = d['case']
        case['deps'] = {int(k): v for k, v in case['deps'].items()}
        tr, sched, info, args = rp.replay_case(case, repo)
        okc = proto.confirm_native(d.get('confirm'), case, tr)
        print(json.dumps(tr.summary(), indent=1))
        print('reproduced' if okc else 'NOT reproduced')
        return 1 if okc else 0
    if kind == 'sysq':
        import shutil, tempfile
        from .. import replay as rp
        from ..native import build_native, run_native
        case = d['case']
        case['deps'] = {int(k): v for k, v in case['deps'].items()}
        binpath, _ = build_native(repo)
        dd = tempfile.mkdtemp(prefix='zxq-', dir=os.environ.get('VERIF_SCRATCH', '/var/tmp'))
        try:
            args = rp.write_project(case, dd)
            sched, order = rp.schedule_for_q(case, dd, d.get('cap', 1))
            tr = rp.NativeTrace(run_native(binpath, dd, args, sched, timeout=60), case)
        finally:
            shutil.rmtree(dd, ignore_errors=True)
        print(json.dumps(tr.summary(), indent=1))
        from . import proto
        okc = proto.confirm_native(d.get('confirm') or 'deadlock', case, tr)
        print('reproduced' if okc else 'NOT reproduced')
        return 1 if okc else 0
    if kind == 'local':
        from .. import local_replay as lr
        native, sched, events = lr.run_trace(d['trace'], repo)
        viol = lr.concrete_monitor(d['trace'], native)
        print(json.dumps({'events': events, 'native_violations': sorted(viol)}, indent=1, default=str))
        okc = bool(viol)
        print('reproduced' if okc else 'NOT reproduced')
        return 1 if okc else 0
    if kind in ('incr', 'c14', 'clean', 'listing', 'watch', 'maintail', 'resolve'):
        # these files record the concrete inputs and what the real binary did with them in the run that wrote them
        print(json.dumps({k: d[k] for k in d if k != 'obligation'}, indent=1, default=str)[:4000])
        print('recorded native confirmation: %s (re-run the check to regenerate against the current tree)' % d.get('confirmed'))
        return 1 if d.get('confirmed') else 0
    if kind == 'script':
        import subprocess
        r = subprocess.run(d['cmd'], shell=True, cwd=VERIF)
        return r.returncode
    print('unknown replay kind')
    return 2


def cross_check(assertions, expect, timeout_s=120, solvers=('z3-new', 'cvc5')):
    """Second opinion on one query: the assertions are written as SMT-LIB2 text and handed to other solver binaries.
    Returns {'expect': .., 'results': {solver: 'sat'|'unsat'|'unknown'|'timeout'|'error: ..'}, 'agree': bool or None}.
    agree is False only when another solver gives the opposite definite answer; timeouts/unknowns leave it None."""
    import subprocess
    import tempfile
    import z3
    s2 = z3.Solver()
    s2.add(*assertions)
    txt = '(set-logic ALL)\n' + s2.to_smt2()
    f = tempfile.NamedTemporaryFile('w', suffix='.smt2', delete=False, dir=os.environ.get('VERIF_SCRATCH', '/var/tmp'))
    f.write(txt)
    f.close()
    res = {}
    try:
        for sv in solvers:
            cmd = {'z3-new': ['z3-new', '-T:%d' % timeout_s, f.name], 'z3': ['/usr/bin/z3', '-T:%d' % timeout_s, f.name],
                   'cvc5': ['cvc5', '--lang', 'smt2', '--tlimit=%d' % (timeout_s * 1000), f.name]}[sv]
            try:
                o = subprocess.run(cmd, capture_output=True, text=True, timeout=timeout_s + 30)
                out = (o.stdout or '').strip().splitlines()
                if any(l.startswith('(error') for l in out):
                    res[sv] = 'error: ' + [l for l in out if l.startswith('(error')][0][:120]
                elif out and out[0] in ('sat', 'unsat', 'unknown'):
                    res[sv] = out[0]
                elif 'timeout' in (o.stdout + o.stderr).lower() or 'interrupted' in (o.stdout + o.stderr).lower():
                    res[sv] = 'timeout'
                else:
                    res[sv] = 'error: ' + (o.stdout + o.stderr).strip()[:120]
            except subprocess.TimeoutExpired:
                res[sv] = 'timeout'
            except FileNotFoundError:
                res[sv] = 'error: not installed'
    finally:
        os.unlink(f.name)
    definite = [v for v in res.values() if v in ('sat', 'unsat')]
    agree = None
    if definite:
        agree = all(v == expect for v in definite)
    return {'expect': expect, 'results': res, 'agree': agree, 'smt2_bytes': len(txt)}
