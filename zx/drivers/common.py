"""Shared helpers of the drivers: evidence files, known findings, exit protocol."""
import json
import os
import sys
import time

VERIF = os.path.dirname(os.path.dirname(os.path.dirname(os.path.abspath(__file__))))
EVIDENCE = os.path.join(VERIF, 'evidence')
REPLAYS = os.path.join(EVIDENCE, 'replays')
KNOWN = os.path.join(VERIF, 'known_findings.json')


def known_findings(prop):
    if not os.path.exists(KNOWN):
        return []
    data = json.load(open(KNOWN))
    return [f for f in data.get('findings', []) if f['property'] == prop]


def write_evidence(prop, tier, seed, level, coverage, assumptions, wall_s, violations, extra=None):
    os.makedirs(EVIDENCE, exist_ok=True)
    ev = {'property_id': prop, 'tier': tier, 'seed': seed, 'level': level, 'coverage': coverage,
          'assumptions': assumptions, 'wall_s': round(wall_s, 1), 'violations': violations}
    if extra:
        ev.update(extra)
    p = os.path.join(EVIDENCE, prop + '.json')
    json.dump(ev, open(p, 'w'), indent=1, default=str)
    return p


def finish(prop, violations, inconclusive, known_lines):
    for l in known_lines:
        print(l)
    for v in violations:
        print('VIOLATION property=%s replay=%s' % (prop, v))
    if violations:
        return 1
    if inconclusive:
        for i in inconclusive:
            print('INCONCLUSIVE: %s' % i)
        return 2
    print('OK property=%s' % prop)
    return 0


def replay_file(path, repo):
    """Re-run a saved replay file against the current tree."""
    d = json.load(open(path))
    kind = d.get('kind', 'proto')
    if kind == 'proto':
        from .. import replay as rp
        from . import proto
        case = d['case']
        case['deps'] = {int(k): v for k, v in case['deps'].items()}
        tr, sched, info, args = rp.replay_case(case, repo)
        okc = proto.confirm_native(d.get('confirm'), case, tr)
        print(json.dumps(tr.summary(), indent=1))
        print('reproduced' if okc else 'NOT reproduced')
        return 1 if okc else 0
    if kind == 'sysq':
        import shutil, tempfile
        from .. import replay as rp
        from ..native import build_native, run_native
        case = d['case']
        case['deps'] = {int(k): v for k, v in case['deps'].items()}
        binpath, _ = build_native(repo)
        dd = tempfile.mkdtemp(prefix='zxq-', dir=os.environ.get('VERIF_SCRATCH', '/var/tmp'))
        try:
            args = rp.write_project(case, dd)
            sched, order = rp.schedule_for_q(case, dd, d.get('cap', 1))
            tr = rp.NativeTrace(run_native(binpath, dd, args, sched, timeout=60), case)
        finally:
            shutil.rmtree(dd, ignore_errors=True)
        print(json.dumps(tr.summary(), indent=1))
        from . import proto
        okc = proto.confirm_native(d.get('confirm') or 'deadlock', case, tr)
        print('reproduced' if okc else 'NOT reproduced')
        return 1 if okc else 0
    if kind == 'local':
        from .. import local_replay as lr
        native, sched, events = lr.run_trace(d['trace'], repo)
        viol = lr.concrete_monitor(d['trace'], native)
        print(json.dumps({'events': events, 'native_violations': sorted(viol)}, indent=1, default=str))
        okc = bool(viol)
        print('reproduced' if okc else 'NOT reproduced')
        return 1 if okc else 0
    if kind in ('incr', 'c14', 'clean', 'listing', 'watch', 'maintail', 'resolve'):
        # these files record the concrete inputs and what the real binary did with them in the run that wrote them
        print(json.dumps({k: d[k] for k in d if k != 'obligation'}, indent=1, default=str)[:4000])
        print('recorded native confirmation: %s (re-run the check to regenerate against the current tree)' % d.get('confirmed'))
        return 1 if d.get('confirmed') else 0
    if kind == 'script':
        import subprocess
        r = subprocess.run(d['cmd'], shell=True, cwd=VERIF)
        return r.returncode
    print('unknown replay kind')
    return 2
