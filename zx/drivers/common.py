"""Shared helpers of the drivers: evidence files, known findings, exit protocol."""
import json
import os
import sys
import time

VERIF = os.path.dirname(os.path.dirname(os.path.dirname(os.path.abspath(__file__))))
EVIDENCE = os.path.join(VERIF, 'evidence')
REPLAYS = os.path.join(EVIDENCE, 'replays')
KNOWN = os.path.join(VERIF, 'known_findings.json')


def known_findings(prop):
    if not os.path.exists(KNOWN):
        return []
    data = json.load(open(KNOWN))
    return [f for f in data.get('findings', []) if f['property'] == prop]


def write_evidence(prop, tier, seed, level, coverage, assumptions, wall_s, violations, extra=None):
    os.makedirs(EVIDENCE, exist_ok=True)
    ev = {'property_id': prop, 'tier': tier, 'seed': seed, 'level': level, 'coverage': coverage,
          'assumptions': assumptions, 'wall_s': round(wall_s, 1), 'violations': violations}
    if extra:
        ev.update(extra)
    p = os.path.join(EVIDENCE, prop + '.json')
    json.dump(ev, open(p, 'w'), indent=1, default=str)
    return p


def finish(prop, violations, inconclusive, known_lines):
    for l in known_lines:
        print(l)
    for v in violations:
        print('VIOLATION property=%s replay=%s' % (prop, v))
    if violations:
        return 1
    if inconclusive:
        for i in inconclusive:
            print('INCONCLUSIVE: %s' % i)
        return 2
    print('OK property=%s' % prop)
    return 0


def replay_file(path, repo):
    """Re-run a saved replay file against the current tree."""
    d = json.load(open(path))
    kind = d.get('kind', 'proto')
    if kind == 'proto':
        from .. import replay as rp
        from . import proto
        case = d['case']
        case['deps'] = {int(k): v for k, v in case['deps'].items()}
        tr, sched, info, args = rp.replay_case(case, repo)
        okc = proto.confirm_native(d.get('confirm'), case, tr)
        print(json.dumps(tr.summary(), indent=1))
        print('reproduced' if okc else 'NOT reproduced')
        return 1 if okc else 0
    if kind == 'script':
        import subprocess
        r = subprocess.run(d['cmd'], shell=True, cwd=VERIF)
        return r.returncode
    print('unknown replay kind')
    return 2
