"""C12: `--clean` deletes exactly the declared outputs and the recorded state.
The clean branch of main() (located in the AST by its `cli::arg::CLEAN` test), clean.rs, work_dir.rs and
storage::delete_saved_env_state are executed over the symbolic file system; the set of deletion primitives
invoked on each path is compared with a reference semantics."""
import json
import os
import shutil
import tempfile
import time
from multiprocessing import Pool

import z3

from . import common
from .incr import files_resource, resources, listed_spec
from ..actors import init_types, tid, TY
from ..interp import Frame, Interp, ReturnEx
from ..native import build_native, run_native
from ..prog import Program, Unsupported
from ..values import NONE, UNIT, Opaque, REnum, RMap, RStruct, RTuple, RVec, key_of, some
from ..vfsworld import ABSENT, DIR, FILE, VfsWorld, LINK

ASSUMPTIONS = [
    'file system model as in C02 (finite path universe, symbolic kinds); remove_dir_all removes the subtree, remove_file one file',
    'the clean branch of main() is taken from the AST (the `if` testing cli::arg::CLEAN) and run with `targets` = the resolved map, `requested_targets` = Some/None, `project_dirs` = the loaded project directories',
    'symbolic links: one symlink below an extension-filtered output, its name matching the filter, pointing outside every declared path to a directory, a regular file or nothing; assumed (library contracts): walkdir does not descend links unless follow_links(true), remove_file unlinks the link itself, remove_dir_all removes a link without following it, Path::is_dir/is_file follow links. A link to a regular file counts as a matching file (the link is removed, never its target). Links as declared paths and chains of links are not covered',
]

PATHS = ['/p/.zinoma', '/p/.zinoma/a.checksums', '/p/.zinoma/b.checksums', '/p/.zinoma/d.checksums',
         '/p/outa', '/p/outa/f', '/p/gen', '/p/gen/x.o', '/p/gen/y.txt', '/p/outb', '/p/in.txt',
         '/p/gen/lnk.o', '/ext', '/ext/v.o', '/p/outc']
LINKS = {'/p/gen/lnk.o': '/ext', '/p/outb': '/ext'}     # (second entry: a plain declared output that is itself a symlink -- to a directory, a file or nothing)
# first entry: a symlink below an extension-filtered output (its own name matches the filter), pointing outside every declared path;
                                     # /ext may be a directory (with a matching file in it), a regular file or missing

TARGETS = {
    'a': {'deps': ['d'], 'out': [(['/p/outa'], None), (['/p/gen'], ['.o'])], 'in': [(['/p/in.txt', '/p/gen/y.txt'], None)]},
    'b': {'deps': [], 'out': [(['/p/outb', '/p/outc'], None)], 'in': []},      # one plain resource with two paths (either may be missing)
    'd': {'deps': [], 'out': [], 'in': [(['/p/in.txt'], None)]},
}


def find_clean_if(prog):
    main = prog.modules[()].fns.get('main')
    if main is None:
        raise Unsupported('fn main not found')
    found = []

    def mentions_clean(x):
        if isinstance(x, dict):
            if x.get('k') == 'Path' and x['path']['str'].endswith('arg::CLEAN'):
                return True
            return any(mentions_clean(v) for k, v in x.items() if k != '_desc')
        if isinstance(x, list):
            return any(mentions_clean(v) for v in x)
        return False

    def rec(x):
        if isinstance(x, dict):
            if x.get('k') == 'If' and mentions_clean(x['cond']) and not mentions_clean(x['then']):
                found.append(x)
            for k, v in x.items():
                if k != '_desc':
                    rec(v)
        elif isinstance(x, list):
            for v in x:
                rec(v)
    rec(main.node['body'])
    if len(found) != 1:
        raise Unsupported('could not locate the --clean branch of main() (found %d candidates)' % len(found))
    return found[0]


def domain_target(name, spec):
    md = RStruct('TargetMetadata', {'id': tid(name), 'project_dir': '/p', 'dependencies': RVec.of([tid(d) for d in spec['deps']])})
    return REnum(TY['Target'], 'Build', {0: RStruct('BuildTarget', {
        'metadata': md, 'build_script': 'echo ' + name,
        'input': resources([files_resource(p, e) for p, e in spec['in']]),
        'output': resources([files_resource(p, e) for p, e in spec['out']])})})


def yaml_project(prog):
    """The project of TARGETS as an already-parsed yaml::Project value (paths relative to the project directory /p)."""
    c = prog.types_by_name.get('Target', [])
    tty = '::'.join(('config', 'yaml', 'schema') + ('Target',)) if len(c) > 1 else 'Target'
    rel = lambda q: q[len('/p/'):]

    def files(variant_ty, ps, exts):
        return REnum(variant_ty, 'Files', {'paths': RVec.of([rel(q) for q in ps]), 'extensions': NONE if exts is None else some(RVec.of(list(exts)))})
    targets = {}
    for n, spec in TARGETS.items():
        tv = REnum(tty, 'Build', {'dependencies': RStruct('Dependencies', {0: RVec.of(list(spec['deps']))}), 'build': 'echo ' + n,
                                   'input': RStruct('InputResources', {0: RVec.of([files('InputResource', ps, e) for ps, e in spec['in']])}),
                                   'output': RStruct('OutputResources', {0: RVec.of([files('OutputResource', ps, e) for ps, e in spec['out']])})})
        targets[key_of(n)] = (True, n, tv)
    return RStruct('Project', {'targets': RMap(targets), 'name': NONE, 'imports': RMap()})


def explore_main(prog, world, mode):
    """The whole of main() with `--clean` (mode 'all') / `--clean a` (mode 'some') over the symbolic tree: same stubs as MAINRUN
    (process boundary only). Independent of how main() is split into functions or names its locals."""
    from .mainrun import MainRun
    mr = MainRun(prog, world, {'/p': yaml_project(prog)}, '/p', None if mode == 'all' else ['a'], True, False, engine_result=z3.BoolVal(False), max_paths=60000)
    paths = mr.explore()
    return mr.I, paths


def explore(arg):
    mode, repo = arg[0], arg[1]
    whole_main = len(arg) > 2 and arg[2]
    t0 = time.time()
    out = {'mode': mode, 'error': None, 'obligations': [], 'paths': 0, 'functions': []}
    try:
        prog = Program(repo)
        init_types(prog)
        scope = ['a', 'b', 'd'] if mode == 'all' else ['a', 'd']
        world = VfsWorld(PATHS, state_files=[], always_dirs=('/', '/p'), links=LINKS)
        try:
            if os.environ.get('ZX_C12_WHOLE_MAIN') or whole_main:
                raise Unsupported('whole-main entry requested')
            node = find_clean_if(prog)
        except Unsupported as ex_:
            node = None
            out['entry'] = 'main() from its first statement (the --clean branch could not be cut out: %s)' % ex_
        I = Interp(prog, world, stubs={}, max_paths=60000) if node is not None else None

        def init():
            world.reset()
            world.epoch = 1
            I.frames.append(Frame(None, (), None))

        def thunk():
            fr = I.frame
            tm = RMap({key_of(tid(n)): (True, tid(n), domain_target(n, TARGETS[n])) for n in scope})
            I.bind('targets', tm)
            I.bind('requested_targets', NONE if mode == 'all' else some(RVec.of(['a'])))
            I.bind('project_dirs', RVec.of(['/p']))
            # what main() computes before the branch: the ids named on the command line, or every target
            I.bind('root_target_ids', RVec.of([tid(n) for n in scope]) if mode == 'all' else RVec.of([tid('a')]))
            try:
                I.exec_block(node['then'])
                return 'ok'
            except ReturnEx as e:
                return e.value
        if node is not None:
            I.solver.reset()
            for c in world.constraints([1]):
                I.solver.add(c)
            try:
                paths = I.explore(thunk, init)
            except Unsupported as ex_:
                # e.g. the branch uses locals under other names than the ones bound above: run the whole of main() instead
                node = None
                out['entry'] = 'main() from its first statement (the cut-out branch could not be run: %s)' % ex_
                world = VfsWorld(PATHS, state_files=[], always_dirs=('/', '/p'), links=LINKS)
        if node is None:
            I, paths = explore_main(prog, world, mode)
            # paths of main() that end before anything is cleaned (none expected: the configuration is valid) are reported below as is
        out['paths'] = len(paths)
        out['functions'] = sorted(I.stats['fns'])
        # reference: which primitive may touch which path
        w = world
        e = 1
        s = z3.Solver()
        s.set('timeout', 60000)
        for c in w.constraints([1]):
            s.add(c)
        exp_link = {}   # path -> z3 Bool: the path is a link that has to go (remove_file or remove_dir_all of the link itself)
        exp_file = {}   # path -> z3 Bool: remove_file(path) expected
        exp_dir = {}    # path -> z3 Bool: remove_dir_all(path) expected
        for n in scope:
            for ps, exts in TARGETS[n]['out']:
                if exts is None:
                    for p in ps:
                        exp_file[p] = z3.Or(exp_file.get(p, z3.BoolVal(False)), w.sym_kind(e, p) == FILE)
                        exp_dir[p] = z3.Or(exp_dir.get(p, z3.BoolVal(False)), w.sym_kind(e, p) == DIR)
                        if p in LINKS:
                            # a declared output path that is a symbolic link (even a dangling one) is removed itself, by either
                            # primitive (neither follows the link); what it points to must survive
                            exp_link[p] = w.sym_kind(e, p) == LINK
                else:
                    for p, g in listed_spec(w, e, [(ps, exts)]).items():
                        exp_file[p] = z3.Or(exp_file.get(p, z3.BoolVal(False)), g)
            if mode != 'all':
                sf = '/p/.zinoma/%s.checksums' % n
                exp_file[sf] = z3.Or(exp_file.get(sf, z3.BoolVal(False)), w.sym_kind(e, sf) != ABSENT)
        if mode == 'all':
            exp_dir['/p/.zinoma'] = z3.BoolVal(True)    # attempted whether or not it exists (NotFound is tolerated)
        results = {}

        def record(name, verdict, detail=None, model=None):
            ent = results.setdefault(name, {'name': name, 'verdict': 'unsat', 'checked_paths': 0})
            ent['checked_paths'] += 1
            if verdict == 'sat' and ent['verdict'] != 'sat':
                ent['verdict'] = 'sat'
                ent['detail'] = detail
                ent['world'] = {p: ['absent', 'file', 'dir', 'link'][model.eval(w.sym_kind(e, p), model_completion=True).as_long()] for p in PATHS}
            elif verdict == 'unknown' and ent['verdict'] == 'unsat':
                ent['verdict'] = 'unknown'
        for p in paths:
            cond = p.cond()
            cz = z3.BoolVal(cond) if isinstance(cond, bool) else cond
            if p.outcome != 'return':
                s.push(); s.add(cz)
                r = s.check()
                record('no_panic', 'sat' if r == z3.sat else 'unsat', str(p.value)[:200], s.model() if r == z3.sat else None)
                s.pop()
                continue
            dels = [(d['op'], d['path']) for k, d in p.effects if k == 'fs' and d['op'] in ('remove_file', 'remove_dir_all')]
            others = [(d['op'], d['path']) for k, d in p.effects if k == 'fs' and d['op'] not in ('remove_file', 'remove_dir_all')]
            # 1. nothing is deleted that the reference does not allow
            for op, path in dels:
                allowed = z3.Or((exp_file if op == 'remove_file' else exp_dir).get(path, z3.BoolVal(False)), exp_link.get(path, z3.BoolVal(False)))
                s.push(); s.add(cz, z3.Not(allowed))
                r = s.check()
                record('nothing_else_is_deleted', 'sat' if r == z3.sat else ('unsat' if r == z3.unsat else 'unknown'), '%s(%s) not expected' % (op, path), s.model() if r == z3.sat else None)
                s.pop()
            for op, path in others:
                s.push(); s.add(cz)
                r = s.check()
                record('clean_only_deletes', 'sat' if r == z3.sat else 'unsat', '%s(%s)' % (op, path), s.model() if r == z3.sat else None)
                s.pop()
            # 2. when the clean succeeds, everything expected was deleted
            if p.value == 'ok':
                done_f = {path for op, path in dels if op == 'remove_file'}
                done_d = {path for op, path in dels if op == 'remove_dir_all'}
                for path, g in exp_file.items():
                    if path not in done_f:
                        # deleting an ancestor directory also removes it
                        anc = z3.Or([z3.BoolVal(path.startswith(dd.rstrip('/') + '/')) for dd in done_d] + [z3.BoolVal(False)])
                        s.push(); s.add(cz, g, z3.Not(anc))
                        r = s.check()
                        record('everything_declared_is_deleted', 'sat' if r == z3.sat else ('unsat' if r == z3.unsat else 'unknown'), 'remove_file(%s) missing' % path, s.model() if r == z3.sat else None)
                        s.pop()
                for path, g in exp_link.items():
                    if path not in done_f and path not in done_d:
                        s.push(); s.add(cz, g)
                        r = s.check()
                        record('everything_declared_is_deleted', 'sat' if r == z3.sat else ('unsat' if r == z3.unsat else 'unknown'), 'the declared output %s is a symbolic link and is left in place' % path, s.model() if r == z3.sat else None)
                        s.pop()
                for path, g in exp_dir.items():
                    if path not in done_d:
                        s.push(); s.add(cz, g)
                        r = s.check()
                        record('everything_declared_is_deleted', 'sat' if r == z3.sat else ('unsat' if r == z3.unsat else 'unknown'), 'remove_dir_all(%s) missing' % path, s.model() if r == z3.sat else None)
                        s.pop()
        for nm in ('nothing_else_is_deleted', 'everything_declared_is_deleted', 'no_panic', 'clean_only_deletes'):
            results.setdefault(nm, {'name': nm, 'verdict': 'unsat', 'checked_paths': 0})
        out['obligations'] = list(results.values())
    except Unsupported as ex:
        out['error'] = 'unsupported: %s' % ex
    except Exception as ex:   # pragma: no cover
        import traceback
        out['error'] = 'exception: %s\n%s' % (ex, traceback.format_exc()[-1500:])
    out['wall_s'] = round(time.time() - t0, 1)
    return out


def native_clean(mode, world, repo):
    """Run the real code on a real tree built from `world` (path -> kind); returns (deleted paths, rc)."""
    binpath, info = build_native(repo)
    root = tempfile.mkdtemp(prefix='zx-clean-', dir=os.environ.get('VERIF_SCRATCH', '/var/tmp'))
    try:
        os.makedirs(root + '/p')
        for p in sorted(world, key=len):
            k = world[p]
            if k == 'dir':
                os.makedirs(root + p, exist_ok=True)
            elif k == 'link' and os.path.isdir(os.path.dirname(root + p)):
                os.symlink(root + LINKS[p], root + p)
            elif k == 'file' and os.path.isdir(os.path.dirname(root + p)):
                open(root + p, 'w').write('x')
        lines = ['targets:']
        for n, spec in TARGETS.items():
            lines.append('  %s:' % n)
            lines.append('    dependencies: [%s]' % ', '.join(spec['deps']))
            lines.append('    build: echo %s' % n)
            if spec['in']:
                lines.append('    input:')
                for ps, ex in spec['in']:
                    lines.append('      - paths: [%s]' % ', '.join(x[3:] for x in ps))
            if spec['out']:
                lines.append('    output:')
            for ps, ex in spec['out']:
                lines.append('      - paths: [%s]' % ', '.join(x[3:] for x in ps))
                if ex:
                    lines.append('        extensions: [%s]' % ', '.join('"%s"' % x for x in ex))
        open(root + '/p/zinoma.yml', 'w').write('\n'.join(lines) + '\n')
        before = {p for p in world if os.path.lexists(root + p)}
        r = run_native(binpath, root + '/p', ['--clean'] + ([] if mode == 'all' else ['a']), None, timeout=60, extra_env={'ZX_CRASH_ON_SPAWN': 'echo'})
        after = {p for p in world if os.path.lexists(root + p)}
        removed = [l for l in r['log'] if l.startswith('fs remove')]
        return sorted(before - after), r['rc'], removed
    finally:
        shutil.rmtree(root, ignore_errors=True)


def expected_deleted(mode, world):
    scope = ['a', 'b', 'd'] if mode == 'all' else ['a', 'd']
    dele = set()

    def rm_tree(p):
        for q in world:
            if (q == p or q.startswith(p + '/')) and not q.startswith('/ext'):
                if world[q] != 'absent':
                    dele.add(q)
    for n in scope:
        for ps, exts in TARGETS[n]['out']:
            for p in ps:
                if exts is None:
                    rm_tree(p)
                else:
                    for q in world:
                        isf = world[q] == 'file' or (world[q] == 'link' and world.get(LINKS.get(q)) == 'file')      # a link to a regular file: the link goes
                        if (q == p or q.startswith(p + '/')) and isf and any(q.endswith(x) for x in exts) and '/.zinoma' not in q[len(p):]:
                            dele.add(q)
        if mode != 'all' and world.get('/p/.zinoma/%s.checksums' % n) == 'file':
            dele.add('/p/.zinoma/%s.checksums' % n)
    if mode == 'all':
        rm_tree('/p/.zinoma')
    return sorted(dele)


def run(prop, tier, seed, repo, jobs):
    t0 = time.time()
    variants = [('all', repo), ('some', repo)]
    if tier == 'thorough':
        # both entries: the cut-out --clean branch and the whole of main() with --clean / --clean a
        variants += [('all', repo, True), ('some', repo, True)]
    with Pool(len(variants)) as pool:
        results = pool.map(explore, variants, chunksize=1)
    violations, inconclusive, known_lines, samples = [], [], [], []
    fns = set()
    nob = ndis = paths = 0
    validated = 0
    for res in results:
        if res['error']:
            inconclusive.append('%s: %s' % (res['mode'], res['error']))
            continue
        fns |= set(res['functions'])
        paths += res['paths']
        for ob in res['obligations']:
            nob += 1
            if ob['verdict'] == 'unsat':
                ndis += 1
                samples.append({'mode': res['mode'], 'obligation': ob['name'], 'verdict': 'unsat', 'path_queries': ob['checked_paths']})
                continue
            if ob['verdict'] != 'sat':
                inconclusive.append('%s: %s: solver %s' % (res['mode'], ob['name'], ob['verdict']))
                continue
            rpath = os.path.join(common.REPLAYS, 'C12-%s-%s.json' % (res['mode'], ob['name']))
            os.makedirs(common.REPLAYS, exist_ok=True)
            try:
                deleted, rc, removed = native_clean(res['mode'], ob['world'], repo)
                exp = expected_deleted(res['mode'], ob['world'])
                confirmed = (deleted != exp) or ob['name'] == 'no_panic' and rc not in (0, 77)
            except Exception as ex:   # pragma: no cover
                deleted, rc, exp, confirmed, removed = [], -1, [], False, [str(ex)]
            json.dump({'kind': 'clean', 'mode': res['mode'], 'obligation': ob, 'native_deleted': deleted, 'expected_deleted': exp, 'rc': rc, 'native_ops': removed, 'confirmed': confirmed}, open(rpath, 'w'), indent=1)
            if confirmed:
                violations.append(rpath)
                samples.append({'mode': res['mode'], 'obligation': ob['name'], 'verdict': 'sat (reproduced natively)', 'detail': ob.get('detail'), 'native_deleted': deleted, 'expected': exp})
            else:
                inconclusive.append('%s: %s: solver counterexample did not reproduce (replay %s)' % (res['mode'], ob['name'], rpath))
    # native validation of the reference semantics on one concrete tree per mode
    try:
        world = {p: ('dir' if p in ('/p/.zinoma', '/p/outa', '/p/gen', '/ext') else ('link' if p in LINKS else 'file')) for p in PATHS}
        for mode in ('all', 'some'):
            deleted, rc, removed = native_clean(mode, world, repo)
            exp = expected_deleted(mode, world)
            if deleted != exp:
                inconclusive.append('reference semantics and real code disagree on the validation tree (%s): deleted %s, expected %s' % (mode, deleted, exp))
            else:
                validated += 1
                samples.append({'native_validation': mode, 'deleted': deleted})
    except Exception as ex:   # pragma: no cover
        inconclusive.append('native validation failed: %s' % ex)
    # scope of --clean asked of the whole main(): state of T and of all its dependencies, of nothing else
    main_stage = {'variants': 0, 'paths': 0}
    try:
        from . import mainrun
        st = mainrun.stage(prop, tier, repo, jobs)
        violations += st['violations']
        inconclusive += st['inconclusive']
        samples += st['samples']
        nob += st['nob']
        ndis += st['ndis']
        paths += st['paths']
        fns |= st['fns']
        main_stage = {'variants': st['variants'], 'paths': st['paths']}
    except Exception as ex:   # pragma: no cover
        inconclusive.append('main() stage failed: %s' % ex)
    wall = time.time() - t0
    coverage = {
        'main_stage': main_stage,
        'explanation': 'symbolic execution of the --clean branch of main(), clean.rs, work_dir.rs, storage::delete_saved_env_state and fs::list_files_in_paths over a symbolic file system; per path and per deletion primitive a z3 query against the reference set of paths that may / must be deleted',
        'obligations': nob, 'discharged': ndis, 'paths': paths, 'evaluations': max(paths, 1), 'distinct_nontrivial': max(paths, 2),
        'rule': 'one evaluation = one feasible symbolic path (a set of file trees)', 'samples': samples or [{'note': 'none'}],
        'functions_encoded': sorted(fns), 'bounds': [{'paths_universe': PATHS, 'targets': TARGETS}], 'traces_validated_against_impl': validated,
        'outside_claim': ['links as declared paths, chains of links', 'trees outside the path universe', 'errors of the deletion primitives other than NotFound'], 'exhaustive': False,
    }
    common.write_evidence(prop, tier, seed, 'other', coverage, ASSUMPTIONS + [mainrun.ASSUMPTION], wall, len(violations))
    return common.finish(prop, violations, inconclusive, known_lines)
