"""MAINRUN: the real `main()` executed from its first statement over a family of projects (Shape), a symbolic file
system and a described command line.  Only the process boundary is stubbed:
  * clap:  cli::get_app() / mut_arg / get_matches -> the described command line (requested names must be among the
           possible values the real code computes, otherwise clap rejects: path outcome `clap_reject`)
  * stderrlog initialisation
  * Config::load_project (serde_yaml) -> the shape's project value for that directory; dunce::canonicalize -> lexical
  * engine::run / TargetActors::new / terminate / terminate_on_ctrlc -> observable effects (`engine_run` carries the
    root ids, the resolved target map and the watch option the real code passes)
Everything else -- yaml::Config::load's import walk, ir conversion, name listing, id parsing, resolution, the clean
branch, the order of all of it -- is the code of /repo as it stands."""
import z3

from ..interp import Frame, Interp, ReturnEx
from ..prog import Unsupported
from ..values import NONE, UNIT, Opaque, REnum, RMap, RStruct, RTuple, RVec, Union, err, key_of, ok, some
from ..vfsworld import VfsWorld


def norm(p):
    out = []
    for c in p.split('/'):
        if c in ('', '.'):
            continue
        if c == '..':
            if out:
                out.pop()
        else:
            out.append(c)
    return '/' + '/'.join(out)


class ClapReject(Exception):
    pass


class MainRun:
    def __init__(self, prog, world, projects, root_dir, requested, clean, watch, engine_result=None, max_paths=40000):
        """projects: {dir: yaml Project value}; requested: list of spellings or None; clean/watch: bool."""
        self.prog = prog
        self.world = world
        self.projects = projects
        self.root_dir = root_dir
        self.requested = requested
        self.clean = clean
        self.watch = watch
        self.engine_result = engine_result if engine_result is not None else z3.Bool('engine_run_fails')
        main = prog.modules[()].fns.get('main')
        if main is None:
            raise Unsupported('fn main not found')
        self.main = main
        stubs = {
            'cli::get_app': self._get_app,
            'Config::load_project': self._load_project,
            'engine::run': self._engine_run,
            'terminate_on_ctrlc': lambda I, fd, args, sa, node: ok(Opaque('TerminationEvents')),
            'TargetActors::new': self._actors_new,
        }
        self.I = Interp(prog, world, stubs=stubs, max_paths=max_paths)
        self._wrap_world()

    # ------------------------------------------------------------------ stubs
    def _get_app(self, I, fd, args, self_arg, node):
        return Opaque('ClapApp', possible=None)

    def _load_project(self, I, fd, args, self_arg, node):
        d = norm(I.deref(args[0]))          # opening <dir>/zinoma.yml resolves . and .. like any file-system access
        pj = self.projects.get(d)
        if pj is None:
            return err(Opaque('Error', msg='Failed to open config file', site=0, file=''))
        return ok(pj)

    def _engine_run(self, I, fd, args, self_arg, node):
        a = [I.deref(x) for x in args]
        I.effect('engine_run', roots=a[0], watch=a[1], actors=a[2])
        r = Union([(self.engine_result, err(Opaque('Error', msg='target failed', site=0, file=''))), (z3.Not(self.engine_result), ok(UNIT))])
        return r

    def _actors_new(self, I, fd, args, self_arg, node):
        a = [I.deref(x) for x in args]
        I.effect('actors_new', targets=a[0], watch=a[2] if len(a) > 2 else None)
        return Opaque('TargetActorsHandle', targets=a[0])

    def _wrap_world(self):
        w = self.world
        orig_method = w.call_method
        orig_path = w.call_path
        mr = self

        def call_method(I, ref, v, method, args, node):
            if isinstance(v, Opaque):
                t = v.tag
                if t == 'ClapApp':
                    if method == 'mut_arg':
                        # the closure configures the argument: run it on a recording Arg
                        argname = I.deref(args[0])
                        a = I.deref(I.call_value(args[1], [Opaque('ClapArg', name=argname, possible=None)], node))
                        if isinstance(a, Opaque) and a.tag == 'ClapArg' and a.get('possible') is not None:
                            return Opaque('ClapApp', possible=a.get('possible'))
                        return v
                    if method == 'get_matches':
                        poss = v.get('possible')
                        if poss is not None and mr.requested is not None:
                            allowed = [x for g, x in I.lib.iterate(poss, node)]
                            for r in mr.requested:
                                if r not in allowed:
                                    I.effect('clap_reject', name=r)
                                    raise ReturnEx(err(Opaque('Error', msg='clap: %r is not a possible value' % r, site=0, file='')))
                        return Opaque('ArgMatches', final=poss is not None)
                if t == 'ClapArg':
                    if method == 'possible_values':
                        return Opaque('ClapArg', name=v.get('name'), possible=I.deref(args[0]))
                    if method in ('required_unless', 'required', 'multiple', 'help'):
                        return v
                if t == 'ArgMatches':
                    if method == 'occurrences_of':
                        return 0
                    if method == 'value_of':
                        return some(mr.root_dir)
                    if method == 'values_of_lossy':
                        return NONE if mr.requested is None else some(RVec.of(list(mr.requested)))
                    if method == 'is_present':
                        name = I.deref(args[0])
                        if name == 'clean':
                            return mr.clean
                        if name == 'watch':
                            return mr.watch
                        raise Unsupported('ArgMatches::is_present(%r)' % (name,), node)
                if t == 'StderrLog':
                    if method == 'init':
                        return ok(UNIT)
                    return v
                if t == 'TargetActorsHandle':
                    if method == 'terminate':
                        I.effect('terminate')
                        return Opaque('Future', kind='ready', value=UNIT)
                    raise Unsupported('main() calls TargetActors::%s' % method, node)
            return orig_method(I, ref, v, method, args, node)

        def call_path(I, name, args, node):
            if name.endswith('dunce::canonicalize'):
                p = norm(I.deref(args[0]))
                if p not in mr.projects and not any(q == p or q.startswith(p + '/') for q in list(w.paths) + list(w.always_dirs)):
                    return err(Opaque('IoError', msg='not found', kind=REnum('ErrorKind', 'NotFound')))
                return ok(p)
            if name.endswith('path::absolute'):
                a = I.deref(args[0])
                if not a.startswith('/'):
                    a = mr.root_dir.rstrip('/') + '/' + a
                return ok(a)                     # lexical: keeps . and .. (documented behaviour on Unix)
            if name.endswith('stderrlog::new'):
                return Opaque('StderrLog')
            return orig_path(I, name, args, node)
        w.call_method = call_method
        w.call_path = call_path
        w.new_channel = lambda I, cap, node: RTuple((Opaque('Sender', chan='OUT'), Opaque('Receiver', chan='OUT')))

    # ------------------------------------------------------------------ run
    def explore(self, constraints=()):
        I = self.I
        w = self.world

        def init():
            w.reset()
            w.epoch = 1
            I.frames.append(Frame(None, (), None))

        def thunk():
            return I.deref(I.call_fn(self.main, []))
        I.solver.reset()
        for c in w.constraints([1]):
            I.solver.add(c)
        for c in constraints:
            I.solver.add(c)
        return I.explore(thunk, init)


def summarise(I, p):
    """What a path of main() did, in order: list of ('delete', op, path) / ('engine_run', root ids, target keys, watch) /
    ('terminate',) / ('clap_reject', name); plus the verdict ('Ok'/'Err'/outcome)."""
    from .resolve import tid_key
    evs = []
    for k, d in p.effects:
        if k == 'fs' and d['op'] in ('remove_file', 'remove_dir_all'):
            evs.append(('delete', d['op'], d['path']))
        elif k == 'fs':
            evs.append(('fs', d['op'], d.get('path')))
        elif k == 'engine_run':
            roots = [tid_key(x) for _, x in d['roots'].items]
            actors = d['actors']
            tg = actors.get('targets') if isinstance(actors, Opaque) else None
            keys = sorted((tid_key(kv) for k_, (g, kv, tv) in tg.entries.items()), key=str) if tg is not None else None
            evs.append(('engine_run', roots, keys, d['watch']))
        elif k == 'terminate':
            evs.append(('terminate',))
        elif k == 'clap_reject':
            evs.append(('clap_reject', d['name']))
    if p.outcome != 'return':
        return evs, p.outcome
    v = p.value
    return evs, (v.variant if isinstance(v, REnum) else str(v))


# ---------------------------------------------------------------------------------------------------- obligations
def cli_variants(sh, tier):
    """Command lines explored per shape: (requested spellings or None, clean)."""
    from .resolve import Shape
    reqs = list(sh.requests)
    out = []
    for r in reqs:
        out.append(([r], False))
    for i, a in enumerate(reqs):
        for b in reqs[i + 1:]:
            out.append(([a, b], False))
            ta, tb = a.split('::')[-1], b.split('::')[-1]
            if ta == tb:
                out.append(([b, a], False))        # same bare name in two spellings / two projects: both orders
    out.append(([reqs[0]], True))
    if len(reqs) > 1:
        out.append(([reqs[0], reqs[-1]], True))
    out.append((None, True))
    if tier != 'thorough':
        # quick: singles, same-name pairs (both orders), the clean variants
        keep = []
        for rq, cl in out:
            if cl or len(rq) == 1 or rq[0].split('::')[-1] == rq[1].split('::')[-1]:
                keep.append((rq, cl))
        out = keep
    return out


def state_path(sh, u):
    pj, t = u
    return '%s/.zinoma/%s.checksums' % (sh.projects[pj]['dir'], t if pj is None else '%s::%s' % (pj, t))


def check_variant(arg):
    import time
    from ..actors import init_types
    from ..prog import Program
    from . import resolve
    prop, idx, requested, clean, tier, repo = arg
    t0 = time.time()
    out = {'shape': None, 'requested': requested, 'clean': clean, 'obligations': [], 'error': None, 'paths': 0, 'functions': []}
    try:
        prog = Program(repo)
        init_types(prog)
        sh = resolve.shapes(tier)[idx]
        out['shape'] = sh.name
        rr = resolve.ResolverRun(prog, sh)
        projects = {}
        for pj, d in sh.projects.items():
            v = rr.yaml_project(pj)
            imps = {key_of(o): (True, o, rel) for o, rel in sh.import_map(pj).items()}
            if imps:
                v = v.with_field('imports', RMap(imps))
            projects[d['dir']] = v
        T = sh.all_targets()
        dirs = sorted({d['dir'] for d in sh.projects.values()})
        upaths = []
        for d in dirs:
            upaths += [d + '/.zinoma']
        upaths += [state_path(sh, u) for u in T]
        world = VfsWorld(upaths, always_dirs=tuple(['/'] + dirs))
        # the tree itself is concrete here (every work directory and record exists, no declared output does): what is
        # decided is the order and scope of what main() does; the tree-dependent part of --clean is the C12 check
        from ..vfsworld import DIR, FILE
        fixed = [world.sym_kind(1, q) == (DIR if q.endswith('/.zinoma') else FILE) for q in upaths]
        mr = MainRun(prog, world, projects, sh.projects[sh.root_name]['dir'], requested, clean, False)
        paths = mr.explore(fixed)
        out['paths'] = len(paths)
        out['functions'] = sorted(mr.I.stats['fns'])
        # reference with the request bits fixed by this command line
        if requested is None:
            allnames = [t if pj is None else '%s::%s' % (pj, t) for (pj, t) in T]
            sh_o = resolve.Shape(sh.name, sh.root_name, sh.projects, sh.refs, allnames)
            sh_o.bits = sh.bits
            sub = [(b, z3.BoolVal(True)) for b in sh_o.req_bits]
            req_ids = list(T)
        elif all(r in sh.requests for r in requested):
            sh_o = sh
            sub = [(b, z3.BoolVal(t in requested)) for b, t in zip(sh.req_bits, sh.requests)]
        else:
            # a command line with spellings outside the shape's own request list: the reference is built for exactly these names
            sh_o = resolve.Shape(sh.name, sh.root_name, sh.projects, sh.refs, list(requested), **({'imports': sh.imports} if sh.imports is not None else {}))
            sh_o.bits = sh.bits
            sub = [(b, z3.BoolVal(True)) for b in sh_o.req_bits]
        if requested is not None:
            req_ids = []
            for r in requested:
                rs = sh.resolve(sh.root_name, r)
                req_ids.append(rs[1] if rs[0] == 'ok' else None)
        orc = sh_o.oracle()
        o_err = z3.substitute(orc['error'], sub)
        o_reach = {u: z3.substitute(orc['reach'][u], sub) for u in T}
        s = z3.Solver()
        s.set('timeout', 60000)
        for c in world.constraints([1]) + fixed:
            s.add(c)
        results = {}

        def fail(name, p, formula, detail):
            ent = results.setdefault(name, {'name': name, 'verdict': 'unsat', 'checked_paths': 0})
            ent['checked_paths'] += 1
            if ent['verdict'] == 'sat':
                return
            s.push()
            c = p.cond()
            s.add(c if not isinstance(c, bool) else z3.BoolVal(c))
            s.add(formula)
            r = s.check()
            if r == z3.sat:
                m = s.model()
                ent['verdict'] = 'sat'
                ent['refs_present'] = [sh.refs[i] for i, b in enumerate(sh.bits) if z3.is_true(m.eval(b, model_completion=True))]
                ent['requested'] = requested
                ent['clean'] = clean
                ent['detail'] = detail
                ent['world'] = {q: ['absent', 'file', 'dir', 'link'][m.eval(world.sym_kind(1, q), model_completion=True).as_long()] for q in world.paths}
            elif r != z3.unsat:
                ent['verdict'] = 'unknown'
            s.pop()
        for nm in ('main_does_not_panic', 'main_rejects_exactly_broken_graphs', 'engine_gets_exactly_the_requested_roots', 'engine_gets_the_dependency_closure',
                   'a_rejected_configuration_deletes_nothing', 'clean_forgets_the_state_of_the_whole_closure', 'clean_touches_no_state_outside_the_closure'):
            results[nm] = {'name': nm, 'verdict': 'unsat', 'checked_paths': 0}
        TRUE = z3.BoolVal(True)
        for p in paths:
            evs, verdict = summarise(mr.I, p)
            if p.outcome != 'return':
                fail('main_does_not_panic', p, TRUE, '%s: %s' % (p.outcome, str(p.value)[:160]))
                continue
            if any(e[0] == 'clap_reject' for e in evs):
                # the command line names something the real code does not list as a possible value
                rej = [e[1] for e in evs if e[0] == 'clap_reject'][0]
                if sh.resolve(sh.root_name, rej)[0] == 'ok':
                    fail('main_rejects_exactly_broken_graphs', p, TRUE, 'clap rejects the valid name %r' % rej)
                continue
            runs = [e for e in evs if e[0] == 'engine_run']
            dels = [e for e in evs if e[0] == 'delete']
            ran = bool(runs)
            reached_engine_or_end = ran or verdict == 'Ok'
            if requested is not None:
                # verdict of the configuration stage: Err before the engine iff the reference says broken
                delete_failed = (not ran) and verdict == 'Err' and bool(dels) and False
                if ran:
                    fail('main_rejects_exactly_broken_graphs', p, o_err, 'the engine is started although the reachable graph is broken')
                elif verdict == 'Err' and not dels:
                    fail('main_rejects_exactly_broken_graphs', p, z3.Not(o_err), 'main returns Err before the engine although the reachable graph is fine')
            if o_err is not None and dels:
                fail('a_rejected_configuration_deletes_nothing', p, o_err, 'deletions %s happen although the configuration is rejected' % ([e[2] for e in dels][:3],))
            if ran:
                roots, keys, _w = runs[0][1], runs[0][2], runs[0][3]
                if requested is not None:
                    want = [x for x in req_ids if x is not None]
                    if set(roots) != set(want):
                        fail('engine_gets_exactly_the_requested_roots', p, TRUE, 'requested %s = %s, engine roots %s' % (requested, want, roots))
                if keys is not None:
                    for u in T:
                        if sh.projects[u[0]]['targets'][u[1]] == 'aggregate':
                            continue      # (whether an aggregate is an engine target of its own or flattened into its dependents is representation)
                        fail('engine_gets_the_dependency_closure', p, o_reach[u] != z3.BoolVal(u in keys), '%s %s among the engine targets' % (u, 'is' if u in keys else 'is not'))
            if clean and (ran or verdict == 'Ok'):
                rm_files = {e[2] for e in dels if e[1] == 'remove_file'}
                rm_dirs = {e[2] for e in dels if e[1] == 'remove_dir_all'}
                for u in T:
                    sp = state_path(sh, u)
                    gone = sp in rm_files or any(sp.startswith(dd + '/') for dd in rm_dirs)
                    if not gone:
                        fail('clean_forgets_the_state_of_the_whole_closure', p, o_reach[u], 'the recorded state of %s is not removed by --clean %s' % (u, requested or ''))
                    elif requested is not None:
                        fail('clean_touches_no_state_outside_the_closure', p, z3.Not(o_reach[u]), 'the recorded state of %s (outside the closure) is removed' % (u,))
        out['obligations'] = list(results.values())
    except Unsupported as e:
        out['error'] = 'unsupported: %s' % e
    except Exception as e:   # pragma: no cover
        import traceback
        out['error'] = 'exception: %s\n%s' % (e, traceback.format_exc()[-1800:])
    out['wall_s'] = round(time.time() - t0, 1)
    return out


# ---------------------------------------------------------------------------------------------------- stage + native
STAGE_OBLIGATIONS = {
    'C09': ('main_does_not_panic', 'main_rejects_exactly_broken_graphs', 'engine_gets_the_dependency_closure', 'a_rejected_configuration_deletes_nothing'),
    'C18': ('main_does_not_panic', 'clean_touches_no_state_outside_the_closure'),
    'C19': ('main_does_not_panic', 'main_rejects_exactly_broken_graphs', 'engine_gets_exactly_the_requested_roots', 'engine_gets_the_dependency_closure'),
    'C14': ('main_does_not_panic', 'a_rejected_configuration_deletes_nothing'),
    'C12': ('main_does_not_panic', 'clean_forgets_the_state_of_the_whole_closure', 'clean_touches_no_state_outside_the_closure'),
    # an aggregate on the command line / its dependencies on the command line instead: each is resolved to the closure the reference gives
    'C20': ('main_does_not_panic', 'main_rejects_exactly_broken_graphs', 'engine_gets_the_dependency_closure'),
}
ASSUMPTION = ('MAINRUN: main() is executed from its first statement; stubbed at the process boundary only: clap (the described command line; names outside the '
              'possible values computed by the real code are rejected), stderrlog, Config::load_project (already-parsed project values), dunce::canonicalize '
              '(lexical), engine::run / TargetActors::new / terminate / terminate_on_ctrlc (observable effects); the tree is concrete in this stage '
              '(work directories and records exist)')


def native_main(sh, present, requested, clean, repo):
    """The real binary (model runtime) on generated project directories with recorded state in place.
    Returns dict(rc, spawned tags, deleted paths (relative), stderr)."""
    import os
    import shutil
    import tempfile
    from ..native import build_native, run_native
    from .resolve_run import write_projects
    binpath, info = build_native(repo)
    root = tempfile.mkdtemp(prefix='zx-main-', dir=os.environ.get('VERIF_SCRATCH', '/var/tmp'))
    try:
        write_projects(root, sh, present)
        marks = []
        for u in sh.all_targets():
            sp = root + state_path(sh, u)
            os.makedirs(os.path.dirname(sp), exist_ok=True)
            open(sp, 'wb').write(b'not a record')
            marks.append(state_path(sh, u))
        rdir = root + sh.projects[sh.root_name]['dir']
        before = {q for q in marks if os.path.lexists(root + q)}
        args = (['--clean'] if clean else []) + list(requested or [])
        r = run_native(binpath, rdir, args, None, timeout=60, extra_env={'ZX_SERVICE_EXIT': '1'})
        after = {q for q in marks if os.path.lexists(root + q)}
        tags = [l.split('script="echo ')[1].rstrip('"') for l in r['log'] if l.startswith('proc_spawn') and 'script="echo ' in l]
        return {'rc': r['rc'], 'spawned': tags, 'deleted': sorted(before - after), 'stderr': r['stderr'][-400:], 'args': args}
    finally:
        shutil.rmtree(root, ignore_errors=True)


def confirm_native(sh, ob, repo):
    from .resolve_run import eval_oracle
    from . import resolve
    present = [tuple(x) for x in ob['refs_present']]
    requested = ob['requested']
    clean = ob['clean']
    T = sh.all_targets()
    if requested is None:
        allnames = [t if pj is None else '%s::%s' % (pj, t) for (pj, t) in T]
        sh_o = resolve.Shape(sh.name, sh.root_name, sh.projects, sh.refs, allnames)
        error, reach = eval_oracle(sh_o, present, allnames)
    else:
        error, reach = eval_oracle(sh, present, requested)
    nat = native_main(sh, present, requested, clean, repo)
    name = ob['name']
    native_err = nat['rc'] not in (0, 98)
    want = {((pj + '__' if pj else '') + t) for (pj, t) in reach if sh.projects[pj]['targets'][t] != 'aggregate'}
    if name == 'main_does_not_panic':
        return 'panicked' in nat['stderr'], nat
    if name == 'a_rejected_configuration_deletes_nothing':
        return error and native_err and bool(nat['deleted']), nat
    if name == 'clean_forgets_the_state_of_the_whole_closure':
        left = [state_path(sh, u) for u in reach if state_path(sh, u) not in nat['deleted']]
        # (a build that ran re-creates nothing here: records are only written for targets with inputs that completed; compare deletions of the clean step)
        kept_and_skipped = [u for u in reach if state_path(sh, u) not in nat['deleted']]
        return (not error) and bool(left), nat
    if name == 'clean_touches_no_state_outside_the_closure':
        return (not error) and any(state_path(sh, u) in nat['deleted'] for u in T if u not in reach), nat
    # verdict / roots / closure: what ran
    if native_err != error:
        return True, nat
    if not error and requested is not None and set(nat['spawned']) != want:
        return True, nat
    return False, nat


def stage(prop, tier, repo, jobs):
    """Run the MAINRUN obligations of `prop`; returns dict(violations, inconclusive, samples, nob, ndis, paths, fns)."""
    import json
    import os
    from multiprocessing import Pool
    from . import common, resolve
    names = STAGE_OBLIGATIONS[prop]
    shs = resolve.shapes(tier)
    args = []
    for i, sh in enumerate(shs):
        if prop == 'C20':
            # every aggregate of the shape, in every accepted spelling; and the spellings of what it lists, requested instead
            root = sh.root_name
            for (pj, t), kind in [((pj, t), k) for pj, d in sh.projects.items() for t, k in d['targets'].items()]:
                if kind != 'aggregate':
                    continue
                spell = lambda p_, t_: t_ if p_ is None else '%s::%s' % (p_, t_)
                args.append((prop, i, [spell(pj, t)], False, tier, repo))
                if pj == root and pj is not None:
                    args.append((prop, i, [t], False, tier, repo))
                listed = []
                for (rp, rt, rk, text) in sh.refs:
                    if (rp, rt) == (pj, t) and rk == 'dep':
                        r = sh.resolve(pj, text)
                        if r[0] == 'ok' and spell(*r[1]) not in listed:
                            listed.append(spell(*r[1]))
                if listed:
                    args.append((prop, i, listed, False, tier, repo))
            continue
        for rq, cl in cli_variants(sh, tier):
            if prop in ('C14', 'C12', 'C18') and not cl:
                continue
            args.append((prop, i, rq, cl, tier, repo))
    with Pool(min(jobs, max(1, len(args)))) as pool:
        results = pool.map(check_variant, args, chunksize=1)
    out = {'violations': [], 'inconclusive': [], 'samples': [], 'nob': 0, 'ndis': 0, 'paths': 0, 'fns': set(), 'variants': len(args)}
    seen_sat = set()
    n = 0
    for a, res in zip(args, results):
        sh = shs[a[1]]
        tag = 'main(%s%s) on %s' % ('--clean ' if a[3] else '', ' '.join(a[2]) if a[2] else '', sh.name)
        if res['error']:
            out['inconclusive'].append('%s: %s' % (tag, res['error']))
            continue
        out['fns'] |= set(res['functions'])
        out['paths'] += res['paths']
        for ob in res['obligations']:
            if ob['name'] not in names:
                continue
            out['nob'] += 1
            if ob['verdict'] == 'unsat':
                out['ndis'] += 1
                if len(out['samples']) < 6 and ob['checked_paths']:
                    out['samples'].append({'case': tag, 'obligation': ob['name'], 'verdict': 'unsat', 'path_queries': ob['checked_paths']})
                continue
            if ob['verdict'] != 'sat':
                out['inconclusive'].append('%s: %s: solver %s' % (tag, ob['name'], ob['verdict']))
                continue
            key = (sh.name, ob['name'])
            if key in seen_sat:
                continue          # one native confirmation per shape and obligation
            n += 1
            rpath = os.path.join(common.REPLAYS, '%s-main-%d.json' % (prop, n))
            os.makedirs(common.REPLAYS, exist_ok=True)
            try:
                okc, nat = confirm_native(sh, ob, repo)
            except Exception as e:   # pragma: no cover
                okc, nat = False, {'error': str(e)}
            json.dump({'kind': 'resolve', 'property': prop, 'shape': sh.name, 'obligation': ob, 'native': nat, 'confirmed': okc}, open(rpath, 'w'), indent=1, default=str)
            if okc:
                seen_sat.add(key)
                out['violations'].append(rpath)
                out['samples'].append({'case': tag, 'obligation': ob['name'], 'verdict': 'sat (reproduced natively)', 'refs': ob['refs_present'], 'detail': ob.get('detail')})
            else:
                out['inconclusive'].append('%s: %s: %s; not reproduced natively (replay %s)' % (tag, ob['name'], ob.get('detail'), rpath))
    return out


# ---------------------------------------------------------------------------------------------------- C18: entry independence
def entry_independence(arg):
    """A target of an imported project resolves to the same domain value (project directory, input and output resources,
    command directories) whether main() is entered in the importing project or in the target's own project."""
    import time
    from ..actors import init_types
    from ..prog import Program
    from . import resolve
    tier, repo = arg
    t0 = time.time()
    out = {'obligations': [], 'error': None, 'paths': 0, 'functions': []}
    try:
        prog = Program(repo)
        init_types(prog)
        sh = [x for x in resolve.shapes(tier) if x.name == 'two_projects_overlapping_names'][0]
        rr = resolve.ResolverRun(prog, sh)
        chosen = [('q', 'a', 'dep', 'b'), ('q', 'a', 'out', 'b.output'), ('r', 'a', 'dep', 'q::a')]
        pins = [b == z3.BoolVal(tuple(r) in chosen) for b, r in zip(sh.bits, sh.refs)]
        projects = {}
        for pj, d in sh.projects.items():
            v = rr.yaml_project(pj)
            if pj == sh.root_name:
                imps = {key_of(o): (True, o, '..' + od['dir']) for o, od in sh.projects.items() if o != pj}
                v = v.with_field('imports', RMap(imps))
            projects[d['dir']] = v
        dirs = sorted({d['dir'] for d in sh.projects.values()})

        def resolved(root_dir, projs, requested):
            world = VfsWorld([], always_dirs=tuple(['/'] + dirs))
            mr = MainRun(prog, world, projs, root_dir, requested, False, False, engine_result=z3.BoolVal(False))
            ps = mr.explore(pins)
            out['paths'] += len(ps)
            out['functions'] = sorted(set(out['functions']) | mr.I.stats['fns'])
            res = []
            for p in ps:
                if p.outcome != 'return':
                    res.append(('outcome', p.outcome, str(p.value)[:200]))
                    continue
                runs = [d for k, d in p.effects if k == 'engine_run']
                if not runs:
                    res.append(('no_engine', str(p.value)[:200]))
                    continue
                tg = runs[0]['actors'].get('targets')
                vals = {}
                for k_, (g, kv, tv) in tg.entries.items():
                    vals[resolve.tid_key(kv)] = repr(tv)
                res.append(('targets', vals))
            return res
        a = resolved('/r', projects, ['q::a'])
        b = resolved('/q', {'/q': projects['/q']}, ['a'])
        # the same project directory designated by another spelling (what `-p ../q` from a sibling directory amounts to)
        c = resolved('/r/../q', {'/q': projects['/q']}, ['a'])
        ob = {'name': 'imported_target_resolves_identically_from_every_entry_project', 'verdict': 'unsat', 'checked_paths': len(a) + len(b)}
        if len(a) != 1 or len(b) != 1 or len(c) != 1 or a[0][0] != 'targets' or b[0][0] != 'targets' or c[0][0] != 'targets':
            ob['verdict'] = 'sat'
            ob['detail'] = 'entered in the importing project: %s; entered in its own project: %s; entered through another spelling of its directory: %s' % (str(a)[:300], str(b)[:300], str(c)[:300])
        else:
            for u in (('q', 'a'), ('q', 'b')):
                vb, vc = b[0][1].get(u), c[0][1].get(u)
                if vb != vc:
                    ob['verdict'] = 'sat'
                    ob['spelling'] = True
                    ob['detail'] = '%s::%s resolves to different values when its project directory is given as /q and as /r/../q: %s / %s' % (u[0], u[1], (vb or '')[:300], (vc or '')[:300])
                    break
        if ob['verdict'] == 'unsat':
            for u in (('q', 'a'), ('q', 'b')):
                va, vb = a[0][1].get(u), b[0][1].get(u)
                if va != vb:
                    ob['verdict'] = 'sat'
                    ob['detail'] = '%s::%s resolves to different values: from the importing project %s / from its own project %s' % (u[0], u[1], (va or '')[:400], (vb or '')[:400])
                    break
        out['obligations'].append(ob)
    except Unsupported as e:
        out['error'] = 'unsupported: %s' % e
    except Exception as e:   # pragma: no cover
        import traceback
        out['error'] = 'exception: %s\n%s' % (e, traceback.format_exc()[-1500:])
    out['wall_s'] = round(time.time() - t0, 1)
    return out


def native_entry_independence(repo):
    """Real binary: build q::a from the importing project, then ask for a from q's own directory: everything must be skipped."""
    import os
    import shutil
    import tempfile
    from ..native import build_native, run_native
    from . import resolve
    from .resolve_run import write_projects
    sh = [x for x in resolve.shapes('quick') if x.name == 'two_projects_overlapping_names'][0]
    present = [('q', 'a', 'dep', 'b'), ('q', 'a', 'out', 'b.output'), ('r', 'a', 'dep', 'q::a')]
    binpath, info = build_native(repo)
    root = tempfile.mkdtemp(prefix='zx-entry-', dir=os.environ.get('VERIF_SCRATCH', '/var/tmp'))
    try:
        write_projects(root, sh, present)
        r1 = run_native(binpath, root + '/r', ['q::a'], None, timeout=60)
        r2 = run_native(binpath, root + '/q', ['a'], None, timeout=60)
        # ... and once more with the project directory spelt differently on the command line
        r3 = run_native(binpath, root + '/r/../q', ['a'], None, timeout=60)
        sp = lambda r: [l.split('script="echo ')[1].rstrip('"') for l in r['log'] if l.startswith('proc_spawn') and 'script="echo ' in l]
        return {'run1_rc': r1['rc'], 'run1_spawned': sp(r1), 'run2_rc': r2['rc'], 'run2_spawned': sp(r2), 'run2_stderr': r2['stderr'][-300:],
                'run3_rc': r3['rc'], 'run3_spawned': sp(r3), 'run3_stderr': r3['stderr'][-300:]}
    finally:
        shutil.rmtree(root, ignore_errors=True)


# ---------------------------------------------------------------------------------------------------- C18: one record file per target
STATE_NAMES = ['a', 'ab', 'a-b', 'a_b', 'a__b', 'A-b', 'a-b-c', 'a_b-c', 'b']


def state_file_injectivity(arg):
    """storage::get_checksums_file_path evaluated for every target name of a universe of valid names (named and unnamed project):
    two different targets of one project never share a record file."""
    import time
    from ..actors import init_types, tid
    from ..interp import Frame, Interp
    from ..prog import Program
    tier, repo = arg
    t0 = time.time()
    out = {'obligations': [], 'error': None, 'paths': 0, 'functions': []}
    try:
        prog = Program(repo)
        init_types(prog)
        fd = prog.find_fn('storage::get_checksums_file_path')
        world = VfsWorld([], always_dirs=('/', '/p'))
        I = Interp(prog, world)
        ob = {'name': 'distinct_targets_have_distinct_record_files', 'verdict': 'unsat', 'checked_paths': 0}
        for pj in (None, 'p', 'p-q'):
            seen = {}
            for n in STATE_NAMES:
                I.reset_path()
                I.frames.append(Frame(None, ('engine', 'incremental', 'storage'), None))
                idv = RStruct('TargetId', {'project_name': NONE if pj is None else some(pj), 'target_name': n})
                meta = RStruct('TargetMetadata', {'id': idv, 'project_dir': '/p', 'dependencies': RVec()})
                path = I.deref(I.call_fn(fd, [meta]))
                ob['checked_paths'] += 1
                if not isinstance(path, str):
                    raise Unsupported('record path is not concrete: %r' % (path,))
                if path in seen and ob['verdict'] != 'sat':
                    ob['verdict'] = 'sat'
                    ob['detail'] = 'targets %r and %r of project %r share the record file %s' % (seen[path], n, pj, path)
                    ob['pair'] = [seen[path], n]
                    ob['project'] = pj
                seen.setdefault(path, n)
        out['functions'] = sorted(I.stats['fns'])
        out['obligations'].append(ob)
    except Unsupported as e:
        out['error'] = 'unsupported: %s' % e
    except Exception as e:   # pragma: no cover
        import traceback
        out['error'] = 'exception: %s\n%s' % (e, traceback.format_exc()[-1500:])
    out['wall_s'] = round(time.time() - t0, 1)
    return out


def native_state_file_pair(pair, repo):
    """Two targets of one project, each with its own input: build the first, build the second, ask for the first again: it must be skipped."""
    import os
    import shutil
    import tempfile
    from ..native import build_native, run_native
    binpath, info = build_native(repo)
    root = tempfile.mkdtemp(prefix='zx-state-', dir=os.environ.get('VERIF_SCRATCH', '/var/tmp'))
    try:
        lines = ['targets:']
        for i, n in enumerate(pair):
            open('%s/in%d.txt' % (root, i), 'w').write('v')
            lines += ['  %s:' % n, '    build: echo x%d' % i, '    input:', '      - paths: [in%d.txt]' % i]
        open(root + '/zinoma.yml', 'w').write('\n'.join(lines) + '\n')
        runs = []
        for n in (pair[0], pair[1], pair[0]):
            r = run_native(binpath, root, [n], None, timeout=60)
            runs.append({'target': n, 'rc': r['rc'], 'spawned': [l for l in r['log'] if l.startswith('proc_spawn')][:2], 'stderr': r['stderr'][-200:]})
        return runs
    finally:
        shutil.rmtree(root, ignore_errors=True)
