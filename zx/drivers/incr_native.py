"""Native replay of incremental-state counterexamples: the real zinoma code (model runtime, real file system)
is run two or three times over a temporary tree put into the states the solver chose."""
import os
import shutil
import subprocess
import tempfile

from ..native import build_native, run_native

CMD_TEXT = "cat zxctl_%s.out; exit $(cat zxctl_%s.rc)"


def _apply_world(root, st, cmds, mt_rank):
    """Put the tree under `root` into the decoded epoch state."""
    # remove declared paths first (deepest first), then create
    for p in sorted(st, key=lambda x: -len(x)):
        real = root + p
        if p.endswith('.checksums') or p.endswith('/.zinoma'):
            continue
        if os.path.isdir(real) and not os.path.islink(real):
            if st[p]['kind'] != 'dir':
                shutil.rmtree(real)
        elif os.path.lexists(real):
            os.unlink(real)
    for p in sorted(st, key=len):
        real = root + p
        if p.endswith('.checksums') or p.endswith('/.zinoma'):
            continue
        ent = st[p]
        if ent['kind'] == 'link':
            if os.path.isdir(os.path.dirname(real)):
                os.symlink(root + ent['target'], real)
        elif ent['kind'] == 'dir':
            os.makedirs(real, exist_ok=True)
        elif ent['kind'] == 'file':
            os.makedirs(os.path.dirname(real), exist_ok=True)
            open(real, 'w').write(''.join('%08x' % c for c in ent['chunks']))
            t = 1600000000 + 10 * mt_rank[ent['mtime']]
            os.utime(real, (t, t))
    for key, c in cmds.items():
        d, text = key.split('|')
        os.makedirs(root + d, exist_ok=True)
        open(os.path.join(root + d, 'zxctl_%s.out' % text), 'w').write('%08x' % c['out'])
        open(os.path.join(root + d, 'zxctl_%s.rc' % text), 'w').write('0' if c['ok'] else '1')


def _res_yaml(files, cmds, indent):
    lines = []
    for paths, exts in files:
        lines.append('%s- paths: [%s]' % (indent, ', '.join(p[len('/p/'):] for p in paths)))
        if exts is not None:
            lines.append('%s  extensions: [%s]' % (indent, ', '.join('"%s"' % e for e in exts)))
    for c, d in cmds:
        if d == '/p':
            lines.append('%s- cmd_stdout: "%s"' % (indent, CMD_TEXT % (c, c)))
    return lines


def write_project(root, sc):
    os.makedirs(root + '/p', exist_ok=True)
    lines = []
    foreign = [(c, d) for c, d in sc.in_cmds if d != '/p']
    if foreign:
        lines += ['imports:', '  q: ../q']
        os.makedirs(root + '/q', exist_ok=True)
        q = ['name: q', 'targets:', '  prod:', '    build: echo prod', '    output:']
        for c, d in foreign:
            q.append('      - cmd_stdout: "%s"' % (CMD_TEXT % (c, c)))
        open(root + '/q/zinoma.yml', 'w').write('\n'.join(q) + '\n')
    lines += ['targets:', '  t:', '    build: echo t']
    inp = _res_yaml(sc.in_files, sc.in_cmds, '      ')
    if foreign:
        inp.append('      - q::prod.output')
    if inp:
        lines += ['    input:'] + inp
    outp = _res_yaml(sc.out_files, sc.out_cmds, '      ')
    if outp:
        lines += ['    output:'] + outp
    open(root + '/p/zinoma.yml', 'w').write('\n'.join(lines) + '\n')


def replay_runs(sc, worlds, steps, repo='/repo'):
    """steps: list of dicts {'epoch': e, 'mode': 'ok'|'fail'|'crash_in_script'}; returns list of per-run observations."""
    binpath, info = build_native(repo)
    root = tempfile.mkdtemp(prefix='zx-incr-', dir=os.environ.get('VERIF_SCRATCH', '/var/tmp'))
    obs = []
    try:
        write_project(root, sc)
        mts = sorted({ent['mtime'] for w in worlds.values() for ent in w['files'].values() if ent['kind'] == 'file'})
        rank = {v: i for i, v in enumerate(mts)}
        for st in steps:
            w = worlds[str(st['epoch'])]
            env = {}
            if st['mode'] == 'ok_changing':
                # the (virtual) script changes the tree from epoch_before to epoch while it runs
                w0 = worlds[str(st['epoch_before'])]
                _apply_world(root, w0['files'], w0['cmds'], rank)
                sched = ['poll 0 t0.1 all', 'poll 2 t0.4 1', 'poll 0 t0.1 all', 'poll 2 t0.4 1', 'poll 0 t0.1 all', 'poll 2 -', 'poll 0 t0.1 all']
                for p, ent in w['files'].items():
                    if p.endswith('.checksums') or p.endswith('/.zinoma'):
                        continue
                    e0 = w0['files'].get(p, {'kind': 'absent'})
                    if ent['kind'] == 'file' and (e0['kind'] != 'file' or e0.get('chunks') != ent.get('chunks') or e0.get('mtime') != ent.get('mtime')) and os.path.isdir(os.path.dirname(root + p)):
                        sched.append('write %s %s' % (root + p, ''.join('%08x' % c for c in ent['chunks'])))
                    elif ent['kind'] == 'absent' and e0['kind'] == 'file':
                        sched.append('remove %s' % (root + p))
                sched += ['exitscript 0 echo t', 'poll 2 -', 'drain']
                r = run_native(binpath, root + '/p', ['t'], sched, timeout=60)
                spawned = any(l.startswith('proc_spawn') and 'echo t"' in l for l in r['log'])
                obs.append({'rc': r['rc'], 'script_spawned': spawned, 'skipped': 't - Build skipped' in r['stderr'],
                            'state_file_exists': os.path.exists(root + '/p/.zinoma/t.checksums'), 'stderr_tail': r['stderr'][-300:], 'changed_during_script': [l for l in sched if l.startswith(('write', 'remove'))]})
                continue
            if st['mode'] == 'cancel':
                # zinoma itself cancels the build: a termination signal arrives while the script runs; the actor kills the script
                _apply_world(root, w['files'], w['cmds'], rank)
                sched = ['poll 0 t0.1 all', 'poll 2 t0.4 1', 'poll 0 t0.1 all', 'poll 2 t0.4 1', 'poll 0 t0.1 all', 'poll 2 -', 'poll 0 t0.1 all',
                         'signal', 'poll 1 -', 'poll 0 t0.0 1', 'drain']
                r = run_native(binpath, root + '/p', ['t'], sched, timeout=60)
                spawned = any(l.startswith('proc_spawn') and 'echo t"' in l for l in r['log'])
                obs.append({'rc': r['rc'], 'script_spawned': spawned, 'script_killed': any(l.startswith('proc_kill') for l in r['log']), 'skipped': 't - Build skipped' in r['stderr'],
                            'state_file_exists': os.path.exists(root + '/p/.zinoma/t.checksums'), 'stderr_tail': r['stderr'][-300:]})
                continue
            if st.get('keep_tree'):
                pass
            else:
                _apply_world(root, w['files'], w['cmds'], rank)
            if st['mode'] == 'crash_in_script':
                env['ZX_CRASH_ON_SPAWN'] = 'echo t'
            if st['mode'] == 'fail':
                env['ZX_FAIL_SCRIPT'] = 'echo t'
            r = run_native(binpath, root + '/p', ['t'], None, timeout=60, extra_env=env)
            spawned = any(l.startswith('proc_spawn') and 'echo t"' in l for l in r['log'])
            obs.append({'rc': r['rc'], 'script_spawned': spawned, 'skipped': 'Build skipped' in r['stderr'] and 't - Build skipped' in r['stderr'],
                        'state_file_exists': os.path.exists(root + '/p/.zinoma/t.checksums'), 'stderr_tail': r['stderr'][-300:]})
    finally:
        shutil.rmtree(root, ignore_errors=True)
    return obs


def frame_probe(sc, repo='/repo'):
    """Which files does the real code mutate?  The binary runs under strace on a concrete tree of the scenario (first build; unchanged
    second run; second run with the own record overwritten by garbage), with a sibling target's record in place.  Returns the
    mutated paths (relative to the project) outside {own record, creation of the work directory} and whether the sibling record survived."""
    import re
    import subprocess
    binpath, info = build_native(repo)
    root = tempfile.mkdtemp(prefix='zx-frame-', dir=os.environ.get('VERIF_SCRATCH', '/var/tmp'))
    out = {'foreign_mutations': [], 'sibling_survived': True, 'runs': []}
    try:
        write_project(root, sc)
        files = {}
        for paths, exts in sc.in_files + sc.out_files:
            for p in paths:
                files[p] = None
        for p in sc.paths:
            if p.endswith('.checksums') or p.endswith('/.zinoma') or not p.startswith('/p/'):
                continue
            if any(q != p and q.startswith(p + '/') for q in sc.paths):
                os.makedirs(root + p, exist_ok=True)
            else:
                os.makedirs(os.path.dirname(root + p), exist_ok=True)
                open(root + p, 'w').write('x')
        for c, d in sc.in_cmds + sc.out_cmds:
            os.makedirs(root + d, exist_ok=True)
            open(os.path.join(root + d, 'zxctl_%s.out' % c), 'w').write('1')
            open(os.path.join(root + d, 'zxctl_%s.rc' % c), 'w').write('0')
        os.makedirs(root + '/p/.zinoma', exist_ok=True)
        sib = root + '/p/.zinoma/other.checksums'
        open(sib, 'wb').write(b'sibling record')
        own = '/p/.zinoma/t.checksums'
        for variant in ('first', 'unchanged', 'garbage_record'):
            if variant == 'garbage_record':
                open(root + own, 'wb').write(b'Lorem ipsum dolor sit amet')
            logf = os.path.join(root, 'strace.%s' % variant)
            env = dict(os.environ, ZX_LOG=os.path.join(root, 'zxlog.%s' % variant))
            cmd = ['strace', '-f', '-qq', '-e', 'trace=openat,open,creat,rename,renameat,renameat2,unlink,unlinkat,rmdir,mkdir,mkdirat', '-o', logf,
                   'timeout', '-k', '2', '60', binpath, '-p', root + '/p', 't']
            r = subprocess.run(cmd, env=env, capture_output=True, text=True)
            muts = set()
            for l in open(logf, errors='replace'):
                if ' = -1 ' in l and 'rename' not in l:
                    continue
                for m in re.finditer(r'"(%s/p/[^"]*)"' % re.escape(root), l):
                    pth = m.group(1)[len(root):]
                    writing = ('O_WRONLY' in l or 'O_RDWR' in l or 'O_CREAT' in l or 'O_TRUNC' in l) if 'open' in l.split('(')[0] else True
                    if writing:
                        muts.add((l.split('(')[0].split()[-1], pth))
            foreign = sorted((op, pth) for op, pth in muts if not (pth == own or (pth == '/p/.zinoma' and op.startswith('mkdir'))))
            out['runs'].append({'variant': variant, 'rc': r.returncode, 'mutations': sorted(muts), 'foreign': foreign})
            out['foreign_mutations'] += foreign
            if not os.path.exists(sib):
                out['sibling_survived'] = False
        return out
    finally:
        shutil.rmtree(root, ignore_errors=True)
