"""C14 (decidable part): the project-graph walk of yaml::Config::load and ir::Config::from over a symbolic
arrangement of importing projects (names and import edges chosen by the solver)."""
import json
import os
import shutil
import tempfile
import time

import z3

from . import common, mainrun
from ..interp import Frame, Interp
from ..native import build_native, run_native
from ..prog import Program, Unsupported
from ..values import NONE, UNIT, Opaque, REnum, RMap, RStruct, RTuple, RVec, Union, err, key_of, ok, some
from ..vfsworld import VfsWorld

ASSUMPTIONS = [
    'Config::load_project (file open + serde_yaml + name validation) is an environment function returning an already parsed Project per directory: the byte-level clauses of C14 (no panic for any byte string, unknown keys, exactly one kind) concern serde_yaml/yaml-rust and are outside this check',
    'dunce::canonicalize = lexical normalisation on a three-directory universe (injective)',
    'HashMap iteration order: an arbitrary (solver-chosen) permutation per iteration for maps of 2-3 certainly present entries; insertion order otherwise',
    'reference verdict: Ok iff every import reachable from the root names a project whose own name equals the import key, and the names of the loaded projects are pairwise distinct',
]

DIRS = ['/r', '/a', '/b']
NAMES = {'/r': [None, 'r'], '/a': ['x', 'y', None], '/b': ['x', 'y']}
IMPORTS = {'/r': [('x', '../a'), ('y', '../b')], '/a': [('x', '../b'), ('y', '../b/'), ('r', '../r')], '/b': [('x', '../a'), ('y', '../a')]}


def norm(p):
    out = []
    for c in p.split('/'):
        if c in ('', '.'):
            continue
        if c == '..':
            if out:
                out.pop()
        else:
            out.append(c)
    return '/' + '/'.join(out)


def symbols():
    name_sel = {d: z3.BitVec('name_%s' % d[1:], 2) for d in DIRS}
    imp = {d: [z3.Bool('imp_%s_%d' % (d[1:], i)) for i in range(len(IMPORTS[d]))] for d in DIRS}
    return name_sel, imp


def reference(name_sel, imp):
    """(ok verdict, loaded[d]) as z3 terms."""
    loaded = {d: z3.BoolVal(d == '/r') for d in DIRS}
    for _ in range(len(DIRS)):
        loaded = {d: z3.Or([loaded[d]] + [z3.And(loaded[s], imp[s][i]) for s in DIRS for i, (k, rel) in enumerate(IMPORTS[s]) if norm(s + '/' + rel) == d]) for d in DIRS}

    def name_is(d, nm):
        return z3.Or([name_sel[d] == j for j, n in enumerate(NAMES[d]) if n == nm] + [z3.BoolVal(False)])
    edges_ok = []
    for s in DIRS:
        for i, (k, rel) in enumerate(IMPORTS[s]):
            d = norm(s + '/' + rel)
            edges_ok.append(z3.Implies(z3.And(loaded[s], imp[s][i]), name_is(d, k)))
    distinct = []
    for i, d1 in enumerate(DIRS):
        for d2 in DIRS[i + 1:]:
            same = z3.Or([z3.And(name_is(d1, nm), name_is(d2, nm)) for nm in ('x', 'y', 'r', None)])
            distinct.append(z3.Implies(z3.And(loaded[d1], loaded[d2]), z3.Not(same)))
    return z3.And(edges_ok), z3.And(distinct), loaded


def explore(repo):
    prog = Program(repo)
    world = VfsWorld([], always_dirs=('/',))
    name_sel, imp = symbols()

    def load_project(I, fd, args, self_arg, node):
        d = I.deref(args[0])
        if d not in DIRS:
            return err(Opaque('Error', msg='no such project', site=0, file=''))
        names = NAMES[d]
        j = I.choose([name_sel[d] == i for i in range(len(names))])
        nm = names[j]
        imports = RMap({key_of(k): (imp[d][i], k, rel) for i, (k, rel) in enumerate(IMPORTS[d])})
        return ok(RStruct('Project', {'targets': RMap(), 'name': NONE if nm is None else some(nm), 'imports': imports}))

    orig_call_path = world.call_path

    def call_path(I, name, args, node):
        if name.endswith('dunce::canonicalize'):
            return ok(norm(I.deref(args[0])))
        return orig_call_path(I, name, args, node)
    world.call_path = call_path
    I = Interp(prog, world, stubs={'Config::load_project': load_project}, max_paths=20000)
    # three directories: a terminating walk never nests deeper than a few frames per directory; a path that exceeds the bound is
    # reported as a candidate non-termination (confirmed or not on the real binary) instead of making the check inconclusive
    I.diverge_is_outcome = True
    I.depth_bound = 40
    # HashMap iteration order is arbitrary (RandomState): a solver-chosen permutation per iteration of a fully present map
    I.symbolic_hash_order = True
    load_fd = prog.find_fn('yaml::Config::load')
    from_fds = [fd for fd in prog.fns_by_name.get('from', []) if fd.module == ('config', 'ir')]

    def init():
        world.reset()
        I.frames.append(Frame(None, ('config', 'yaml'), None))

    def thunk():
        r = I.deref(I.call_fn(load_fd, ['/r']))
        out = {'load': r}
        if r.variant == 'Ok' and from_fds:
            fr = Frame(None, ('config', 'ir'), None)
            I.frames.append(fr)
            try:
                out['ir'] = I.deref(I.call_fn(from_fds[0], [r.payload[0]]))
            finally:
                I.frames.pop()
        return out
    I.solver.reset()
    for d in DIRS:
        I.solver.add(z3.ULT(name_sel[d], len(NAMES[d])))
    paths = I.explore(thunk, init)
    return prog, I, paths, name_sel, imp


def decode_case(m, name_sel, imp):
    names = {d: NAMES[d][m.eval(name_sel[d], model_completion=True).as_long() % len(NAMES[d])] for d in DIRS}
    imports = {d: [IMPORTS[d][i] for i, b in enumerate(imp[d]) if z3.is_true(m.eval(b, model_completion=True))] for d in DIRS}
    return {'names': names, 'imports': imports}


def concrete_valid(case):
    names, imports = case['names'], case['imports']
    loaded, todo = set(), ['/r']
    while todo:
        d = todo.pop()
        if d in loaded or d not in DIRS:
            continue
        loaded.add(d)
        for k, rel in imports.get(d, []):
            todo.append(norm(d + '/' + rel))
    for d in loaded:
        for k, rel in imports.get(d, []):
            t = norm(d + '/' + rel)
            if t not in DIRS or names.get(t) != k:
                return False
    named = [names[d] for d in loaded if names[d] is not None]
    return len(named) == len(set(named))


def native_case(case, repo, runs=1):
    """Real binary on generated directories; returns list of (rc, stderr tail)."""
    binpath, info = build_native(repo)
    root = tempfile.mkdtemp(prefix='zx-c14-', dir=os.environ.get('VERIF_SCRATCH', '/var/tmp'))
    try:
        for d in DIRS:
            os.makedirs(root + d, exist_ok=True)
            lines = []
            if case['names'][d] is not None:
                lines.append('name: %s' % case['names'][d])
            if case['imports'][d]:
                lines.append('imports:')
                for k, rel in case['imports'][d]:
                    lines.append('  %s: %s' % (k, rel))
            lines.append('targets:')
            lines.append('  t:')
            lines.append('    build: echo from%s' % d.replace('/', '_'))
            open(root + d + '/zinoma.yml', 'w').write('\n'.join(lines) + '\n')
        out = []
        for _ in range(runs):
            r = run_native(binpath, root + '/r', ['--clean'], None, timeout=30)
            out.append((r['rc'], r['stderr'][-200:]))
        return out
    finally:
        shutil.rmtree(root, ignore_errors=True)


def run(prop, tier, seed, repo, jobs):
    t0 = time.time()
    violations, inconclusive, known_lines, samples = [], [], [], []
    known = {f['role']: f for f in common.known_findings(prop) if f.get('status') == 'known'}
    fns = []
    obs = {}
    npaths = 0
    validated = 0
    try:
        prog, I, paths, name_sel, imp = explore(repo)
        npaths = len(paths)
        fns = sorted(I.stats['fns'])
        edges_ok, distinct, loaded = reference(name_sel, imp)
        s = z3.Solver()
        s.set('timeout', 60000)
        for d in DIRS:
            s.add(z3.ULT(name_sel[d], len(NAMES[d])))

        def hit(name, p, formula, detail):
            ent = obs.setdefault(name, {'name': name, 'verdict': 'unsat', 'checked_paths': 0})
            ent['checked_paths'] += 1
            if ent['verdict'] == 'sat':
                return
            c = p.cond()
            s.push(); s.add(c if not isinstance(c, bool) else z3.BoolVal(c)); s.add(formula)
            r = s.check()
            if r == z3.sat:
                ent['verdict'] = 'sat'
                ent['case'] = decode_case(s.model(), name_sel, imp)
                ent['detail'] = detail
            elif r != z3.unsat:
                ent['verdict'] = 'unknown'
            s.pop()
        for n in ('walk_terminates_without_panic', 'accepted_imports_match_project_names', 'accepted_projects_have_unique_names', 'valid_arrangements_are_accepted', 'name_to_project_map_is_total'):
            obs[n] = {'name': n, 'verdict': 'unsat', 'checked_paths': 0}
        for p in paths:
            if p.outcome != 'return':
                hit('walk_terminates_without_panic', p, z3.BoolVal(True), '%s: %s' % (p.outcome, str(p.value)[:200]))
                continue
            r = p.value['load']
            if r.variant == 'Ok':
                hit('accepted_imports_match_project_names', p, z3.Not(edges_ok), 'load() accepted an import whose key differs from the imported project name / an unnamed import')
                hit('accepted_projects_have_unique_names', p, z3.Not(distinct), 'load() accepted two loaded projects with the same name')
                projs = r.payload[0].fields['projects']
                got = {k for k, (g, kv, v) in projs.entries.items()}
                for d in DIRS:
                    hit('valid_arrangements_are_accepted', p, loaded[d] != z3.BoolVal(d in got), 'project %s %s loaded' % (d, 'is' if d in got else 'is not'))
                if 'ir' in p.value:
                    irp = p.value['ir'].fields['projects']
                    # with unique names the name -> project map has one entry per loaded project
                    hit('name_to_project_map_is_total', p, z3.And(distinct, z3.BoolVal(len(irp.entries) != len(got))), 'ir::Config has %d projects for %d loaded' % (len(irp.entries), len(got)))
            else:
                hit('valid_arrangements_are_accepted', p, z3.And(edges_ok, distinct), 'load() rejected an arrangement that satisfies the documented rules')
    except Unsupported as ex:
        inconclusive.append('unsupported: %s' % ex)
    nob = ndis = 0
    for ob in obs.values():
        nob += 1
        if ob['verdict'] == 'unsat':
            ndis += 1
            samples.append({'obligation': ob['name'], 'verdict': 'unsat', 'path_queries': ob['checked_paths']})
            continue
        if ob['verdict'] != 'sat':
            inconclusive.append('%s: solver %s' % (ob['name'], ob['verdict']))
            continue
        rpath = os.path.join(common.REPLAYS, 'C14-%s.json' % ob['name'])
        os.makedirs(common.REPLAYS, exist_ok=True)
        try:
            # the verdict of the real code may depend on this process's HashMap order (RandomState): an acceptance in any of several runs counts
            runs = native_case(ob['case'], repo, runs=12 if ob['name'] == 'accepted_projects_have_unique_names' else 1)
            rc = runs[0][0]
            if ob['name'] in ('accepted_imports_match_project_names', 'accepted_projects_have_unique_names'):
                confirmed = any(r[0] == 0 for r in runs)
            elif ob['name'] == 'valid_arrangements_are_accepted':
                # the documented rules, evaluated on the concrete arrangement: a valid one must be accepted by the real binary
                confirmed = concrete_valid(ob['case']) and rc != 0
            else:
                confirmed = rc not in (0, 1)        # a crash (e.g. stack overflow: 134) or a run stopped by the timeout (-9 / 124)
        except Exception as ex:   # pragma: no cover
            runs, confirmed = [str(ex)], False
        json.dump({'kind': 'c14', 'obligation': ob, 'native': runs, 'confirmed': confirmed}, open(rpath, 'w'), indent=1, default=str)
        role = 'duplicate_project_names' if ob['name'] == 'accepted_projects_have_unique_names' else None
        if role and role in known:
            known_lines.append('KNOWN-FINDING: property=%s %s [replay %s; reproduced natively: %s]' % (prop, known[role]['what'], rpath, confirmed))
            continue
        if confirmed:
            violations.append(rpath)
            samples.append({'obligation': ob['name'], 'verdict': 'sat (reproduced natively)', 'case': ob['case'], 'detail': ob['detail']})
        else:
            inconclusive.append('%s: solver counterexample did not reproduce (replay %s)' % (ob['name'], rpath))
    try:
        good = {'names': {'/r': None, '/a': 'x', '/b': 'y'}, 'imports': {'/r': [('x', '../a')], '/a': [('y', '../b')], '/b': []}}
        bad = {'names': {'/r': None, '/a': 'y', '/b': 'y'}, 'imports': {'/r': [('x', '../a')], '/a': [], '/b': []}}
        r1 = native_case(good, repo)[0][0]
        r2 = native_case(bad, repo)[0][0]
        if r1 == 0 and r2 != 0:
            validated += 1
            samples.append({'native_validation': 'chain r->a->b accepted (rc 0); import key x of a project named y rejected (rc %d)' % r2})
        else:
            inconclusive.append('native validation diverged: good rc=%s bad rc=%s' % (r1, r2))
    except Exception as ex:   # pragma: no cover
        inconclusive.append('native validation failed: %s' % ex)
    # "reports an error before running or deleting anything": the real main() over project families, with --clean
    main_stage = {'variants': 0, 'paths': 0}
    try:
        from . import mainrun
        st = mainrun.stage(prop, tier, repo, jobs)
        violations += st['violations']
        inconclusive += st['inconclusive']
        samples += st['samples']
        nob += st['nob']
        ndis += st['ndis']
        npaths += st['paths']
        fns = sorted(set(fns) | st['fns'])
        main_stage = {'variants': st['variants'], 'paths': st['paths']}
    except Exception as ex:   # pragma: no cover
        inconclusive.append('main() stage failed: %s' % ex)
    wall = time.time() - t0
    coverage = {
        'main_stage': main_stage,
        'explanation': 'symbolic execution of yaml::Config::load (import walk, name checks) and ir::Config::from over three directories whose project names and import edges are solver variables; z3 query per path against the documented acceptance rule',
        'obligations': nob, 'discharged': ndis, 'paths': npaths, 'evaluations': max(npaths, 1), 'distinct_nontrivial': max(npaths, 2),
        'rule': 'one evaluation = one feasible symbolic path', 'samples': samples or [{'note': 'none'}], 'functions_encoded': fns,
        'bounds': [{'directories': DIRS, 'candidate_names': {k: [str(x) for x in v] for k, v in NAMES.items()}, 'candidate_imports': IMPORTS}], 'traces_validated_against_impl': validated,
        'outside_claim': ['the YAML/serde level: arbitrary byte strings, unknown keys, exactly-one-kind (serde_yaml + derive; not encodable within reach)', 'more than three projects'], 'exhaustive': False,
    }
    common.write_evidence(prop, tier, seed, 'other', coverage, ASSUMPTIONS + [mainrun.ASSUMPTION], wall, len(violations))
    return common.finish(prop, violations, inconclusive, known_lines)
