"""The exit path of main(): what happens after engine::run returns.  The statements of main() from the one that
calls engine::run to the end of the enclosing blocks are executed with engine::run stubbed to a symbolic result
(Ok / Err) and TargetActors::terminate stubbed to an observable effect."""
import z3

from ..interp import Frame, Interp, ReturnEx
from ..prog import Program, Unsupported
from ..values import NONE, UNIT, Opaque, REnum, RStruct, RVec, Union, err, ok, some
from ..vfsworld import VfsWorld


def _contains_call(x, suffix):
    if isinstance(x, dict):
        if x.get('k') == 'Call' and x['func'].get('k') == 'Path' and x['func']['path']['str'].endswith(suffix):
            return True
        return any(_contains_call(v, suffix) for k, v in x.items() if k != '_desc')
    if isinstance(x, list):
        return any(_contains_call(v, suffix) for v in x)
    return False


def _find_chain(block, suffix):
    """Path of (block, index) from `block` down to the statement that contains the call."""
    for i, st in enumerate(block['stmts']):
        if not _contains_call(st, suffix):
            continue
        # descend into nested blocks of this statement if the call sits inside one of them
        inner = _inner_blocks(st)
        for b in inner:
            if _contains_call(b, suffix):
                sub = _find_chain(b, suffix)
                if sub is not None:
                    return [(block, i)] + sub
        return [(block, i)]
    return None


def _inner_blocks(x, out=None):
    out = [] if out is None else out
    if isinstance(x, dict):
        if x.get('k') == 'Block':
            out.append(x)
            return out
        for k, v in x.items():
            if k != '_desc':
                _inner_blocks(v, out)
    elif isinstance(x, list):
        for v in x:
            _inner_blocks(v, out)
    return out


def check(repo):
    """Returns obligation dicts."""
    prog = Program(repo)
    main = prog.modules[()].fns.get('main')
    if main is None:
        raise Unsupported('fn main not found')
    chain = _find_chain(main.node['body'], 'engine::run')
    if chain is None:
        raise Unsupported('main() does not call engine::run')
    world = VfsWorld([], always_dirs=('/',))
    res_sel = z3.Bool('engine_run_fails')

    def engine_run(I, fd, args, self_arg, node):
        r = Union([(res_sel, err(Opaque('Error', msg='target failed', site=0, file=''))), (z3.Not(res_sel), ok(UNIT))])
        return r
    orig = world.call_method

    def call_method(I, ref, v, method, args, node):
        if isinstance(v, Opaque) and v.tag == 'TargetActorsHandle':
            if method == 'terminate':
                I.effect('terminate')
                return Opaque('Future', kind='ready', value=UNIT)
            raise Unsupported('main() calls TargetActors::%s after engine::run' % method, node)
        return orig(I, ref, v, method, args, node)
    world.call_method = call_method
    I = Interp(prog, world, stubs={'engine::run': engine_run})

    def init():
        world.reset()
        I.frames.append(Frame(main, (), None))

    def thunk():
        for nm in ('root_target_ids', 'watch_option', 'termination_events', 'target_actor_output_events', 'arg_matches', 'requested_targets', 'targets'):
            I.bind(nm, Opaque('Placeholder', name=nm))
        I.bind('target_actors', Opaque('TargetActorsHandle'))
        # innermost block first: the rest of each enclosing block follows once the inner one is done
        val = UNIT
        try:
            for depth in range(len(chain) - 1, -1, -1):
                blk, idx = chain[depth]
                start = idx if depth == len(chain) - 1 else idx + 1
                for st in blk['stmts'][start:]:
                    val = I.exec_stmt(st)
                    if st['k'] == 'ExprStmt' and st['semi'] or st['k'] != 'ExprStmt':
                        val = UNIT
            return {'how': 'end', 'value': val}
        except ReturnEx as e:
            return {'how': 'return', 'value': e.value}
    paths = I.explore(thunk, init)
    obs = []
    s = z3.Solver()
    bad_term = []
    bad_res = []
    for p in paths:
        if p.outcome != 'return':
            bad_term.append('path ends with %s: %s' % (p.outcome, str(p.value)[:150]))
            continue
        terminated = any(k == 'terminate' for k, d in p.effects)
        v = I.deref(p.value['value']) if False else p.value['value']
        failed = s.check(p.cond() if not isinstance(p.cond(), bool) else z3.BoolVal(p.cond()), res_sel) == z3.sat
        succeeded = s.check(p.cond() if not isinstance(p.cond(), bool) else z3.BoolVal(p.cond()), z3.Not(res_sel)) == z3.sat
        if not terminated:
            bad_term.append('terminate() is not reached when engine::run %s' % ('fails' if failed else 'succeeds'))
        is_err = isinstance(v, REnum) and v.variant == 'Err'
        if failed and not is_err and not succeeded:
            bad_res.append('engine::run failed but main continues with %r' % (v,))
        if succeeded and is_err and not failed:
            bad_res.append('engine::run succeeded but main returns Err')
    obs.append({'name': 'terminate_is_reached_on_every_exit_path', 'verdict': 'sat' if bad_term else 'unsat', 'detail': bad_term[:2], 'paths': len(paths)})
    obs.append({'name': 'engine_result_is_the_exit_result', 'verdict': 'sat' if bad_res else 'unsat', 'detail': bad_res[:2], 'paths': len(paths)})
    return obs, sorted(I.stats['fns'])
