"""Runner of the protocol family: cases in parallel, native replay of witnesses and counterexamples, evidence."""
import itertools
import json
import os
import time
from multiprocessing import Pool

from . import common, proto
from .. import replay as rp

KINDS = ('build', 'service', 'aggregate')

ASSUMPTIONS = [
    'relay folding: a message put on the output channel is handled by the main task in the same step (exact for arrival orders; hides messages waiting in the relay channel, so channel-capacity blocking is outside these queries)',
    'launch_target_actor is cut at its function boundary when interpreting the main task (it is interpreted on its own for every actor)',
    'incremental::env_state_has_not_changed..., storage::{delete,save}_env_state, TargetEnvState::current, TargetWatcher::new are environment oracles here (their code is decided by the incremental / watcher checks)',
    'Child::kill succeeds and a killed child is reaped in the same step; Command::spawn may fail (oracle); processes exit only when the environment lets them, with an arbitrary status',
    'library models: std collections, Option/Result, iterators, async channels (FIFO, bounded, try_send never blocks), task::spawn, Fuse, select! as a choice among ready arms',
    'dependencies only point to lower-numbered targets (every DAG up to renaming); target kinds are enumerated, the dependency matrix, requested roots, schedule and faults are solver variables',
    'iteration order of hash sets is fixed (index order)',
]


def plan(prop, tier):
    """List of (n, watch, K, qcap)."""
    if tier == 'quick':
        p = [(2, False, 18, 6)]
        if prop in ('C01', 'C07', 'C11'):
            p.append((2, True, 20, 6))
        if prop == 'C06':
            p = [(2, True, 20, 6)]
        return p
    p = [(2, False, 18, 6), (3, False, 28, 8)]
    if prop in ('C01', 'C07', 'C11'):
        p += [(2, True, 22, 6), (3, True, 30, 8)]
    if prop == 'C10':
        p += [(2, True, 24, 6)]
    if prop == 'C06':
        p = [(2, True, 20, 6), (2, True, 26, 6), (3, True, 34, 8)]      # (E = 1 decided at K = 20; E = 2 at K = 26 and n = 3 are attempts under a budget)
    return p


def run(prop, tier, seed, repo, jobs):
    t0 = time.time()
    known = common.known_findings(prop)
    known_roles = {f['role']: f for f in known if f.get('status') == 'known'}
    cases = []
    for (n, watch, K, qcap) in plan(prop, tier):
        combos = list(itertools.product(KINDS, repeat=n))
        if seed:
            import random
            random.Random(seed).shuffle(combos)
        for kinds in combos:
            if watch and tier == 'quick' and prop == 'C11' and 'service' not in kinds:
                continue     # single-instance obligation is about services
            only = None
            if watch and tier == 'quick' and prop == 'C11':
                # quick tier, watch mode: the restart obligations (single instance across restarts) take minutes per case and stay in the
                # thorough tier; what is decided here is that a rebuild never starts while a service it depends on is down
                only = ('dependency_services_are_running_when_a_build_starts',)
            emax = 1 if (prop == 'C06' and not (n == 2 and K >= 26)) else 2     # bound E on file-change notifications per run
            cases.append((prop, kinds, watch, K, qcap, seed, True, 300 if tier == 'quick' else (600 if n >= 3 else 1200), repo, tier, None if tier == 'quick' else (900 if n >= 3 else 2400), None, only, emax))
    if prop in ('C11', 'C20'):
        # one fixed three-target graph: an aggregate (the only root) over a build and a service -- the smallest graph in which
        # the two kinds of acknowledgement of one target travel separately
        pin = {'deps': {2: [0, 1]}, 'roots': [2]}
        only = ('stays_alive_iff_service_requested', 'single_instance', 'dependency_services_are_running_when_a_build_starts')
        cases.append(('C11', ('build', 'service', 'aggregate'), False, 26, 8, seed, True, 300, repo, tier, 600, pin, only))
    if prop == 'C17':
        # one fixed three-target graph: a build (the only root) over a build and a service that do not depend on each other --
        # the smallest graph in which two independent targets are in progress at the same time
        pin = {'deps': {2: [0, 1]}, 'roots': [2]}
        only = ('nothing_waits_for_a_non_dependency',)
        cases.append(('C17', ('build', 'service', 'build'), False, 26, 8, seed, True, 300, repo, tier, 600, pin, only))
    L = 10 if tier == 'quick' else 14
    locals_ = [(prop, kind, watch, L, repo) for (kind, watch) in proto.LOCAL_PLAN.get(prop, [])]
    sysq_cases = []
    if prop == 'C20':
        # an aggregate forwards its requesters' requests in one burst: nothing of it may be lost or block for good under queue pressure
        sysq_cases = [('C04', ('build', 'aggregate'), 20 if tier == 'quick' else 26, 1, 240 if tier == 'quick' else 900, repo)]
    if prop in ('C04', 'C10'):
        # blocking under queue pressure (explicit relay channel, blocking sends, bounded capacities clamped to 1)
        kks = [('build', 'build'), ('build', 'aggregate')] if tier == 'quick' else [('build', 'build'), ('build', 'aggregate'), ('aggregate', 'build'), ('build', 'service'), ('service', 'build')]
        if prop == 'C04':
            kks = [kk for kk in kks if 'service' not in kk]      # a requested service legitimately keeps the run alive
        sysq_cases = [(prop, kk, 20 if tier == 'quick' else 26, 1, 240 if tier == 'quick' else 900, repo) for kk in kks]
    with Pool(min(jobs, len(cases) + len(locals_) + len(sysq_cases))) as pool:
        r1 = pool.map_async(proto.run_case, cases, chunksize=1)
        r2 = pool.map_async(proto.run_local, locals_, chunksize=1)
        r3 = pool.map_async(proto.run_sysq, sysq_cases, chunksize=1)
        results = r1.get()
        lresults = r2.get()
        qresults = r3.get()
    violations, inconclusive, known_lines = [], [], []
    reported_known, known_instances = {}, []
    undecided = []
    cross = []
    nq = nunsat = 0
    solver_s = 0.0
    samples = []
    fns = set()
    traces_validated = 0
    states = transitions = 0
    replay_n = 0
    for res in results:
        tag = '%s%s' % ('/'.join(res['kinds']), ' watch' if res['watch'] else '')
        if res['error']:
            inconclusive.append('%s: %s' % (tag, res['error']))
            continue
        fns |= set(res['functions'])
        states += res['state_vars'] * (res['K'] + 1)
        transitions += res['alternatives'] * res['K']
        for q in res['queries']:
            nq += 1
            solver_s += q['solver_s']
            if q['verdict'] == 'unsat':
                nunsat += 1
                if len(samples) < 6:
                    samples.append({'case': tag, 'obligation': q['name'], 'verdict': 'unsat', 'solver_s': q['solver_s'], 'K': res['K']})
                continue
            if q['verdict'] != 'sat':
                if len(res['kinds']) >= 3 or (prop == 'C06' and res.get('max_notifications', 0) >= 2):
                    # the larger bound is an attempt: a timeout there leaves that obligation undecided (recorded), the claim stays at n = 2
                    undecided.append({'case': tag, 'obligation': q['name'], 'verdict': q['verdict'], 'solver_s': q['solver_s']})
                    continue
                inconclusive.append('%s: %s: solver returned %s' % (tag, q['name'], q['verdict']))
                continue
            if q['name'] in ('bound_sufficient', 'inbox_bound_sufficient'):
                inconclusive.append('%s: bound K=%d / queue capacity too small (%s)' % (tag, res['K'], q['name']))
                continue
            # counterexample: replay natively
            case = q['case']
            replay_n += 1
            rpath = os.path.join(common.REPLAYS, '%s-%d.json' % (prop, replay_n))
            role = q.get('role') or ('late_request' if q.get('late_request') else None)
            try:
                tr, sched, info, args = rp.replay_case(case, repo)
                confirmed = proto.confirm_native(q['confirm'], case, tr)
                native = tr.summary()
            except Exception as e:   # pragma: no cover
                inconclusive.append('%s: %s: native replay failed: %s' % (tag, q['name'], e))
                continue
            rp.save_replay(rpath, prop, q['name'], case, sched, args, native)
            d = json.load(open(rpath))
            d['kind'] = 'proto'
            d['confirm'] = q['confirm']
            json.dump(d, open(rpath, 'w'), indent=1, default=str)
            if role and role in known_roles:
                # a listed finding: identified by its role; native reproduction is attempted and recorded
                f = known_roles[role]
                key = (f['id'])
                if key not in reported_known:
                    reported_known[key] = True
                    known_lines.append('KNOWN-FINDING: property=%s %s [%s; e.g. case %s, replay %s, reproduced natively in this run: %s]'
                                       % (prop, f['what'], q['name'], tag, rpath, confirmed))
                known_instances.append({'finding': f['id'], 'case': tag, 'obligation': q['name'], 'reproduced_natively': bool(confirmed)})
                continue
            if not confirmed:
                inconclusive.append('%s: %s: solver counterexample did not reproduce on the real code (replay %s)' % (tag, q['name'], rpath))
                continue
            violations.append(rpath)
            samples.append({'case': tag, 'obligation': q['name'], 'verdict': 'sat (reproduced natively)', 'graph': case['deps'], 'roots': case['roots'],
                            'schedule': [s['alt'] for s in case['steps'] if s['alt'][0] != 'stutter']})
        for cc in res.get('cross_checks', []):
            cross.append({'case': tag, 'obligation': cc.get('obligation'), 'results': cc.get('results'), 'agree': cc.get('agree')})
            if cc.get('agree') is False:
                inconclusive.append('%s: %s: solvers disagree: %s (expected %s)' % (tag, cc.get('obligation'), cc.get('results'), cc.get('expect')))
        w = res.get('witness')
        if w is not None:
            if w['verdict'] != 'sat':
                # some kind combinations admit no run launching every target (e.g. nothing can depend on t1): not an error
                continue
            try:
                tr, sched, info, args = rp.replay_case(w['case'], repo)
            except Exception as e:   # pragma: no cover
                inconclusive.append('%s: witness replay failed: %s' % (tag, e))
                continue
            exp = [list(e) for e in proto.expected_native(w['case'])]
            upto = tr.events.index(('schedule_end',)) if ('schedule_end',) in tr.events else len(tr.events)
            got = [list(e) for e in tr.events[:upto] if e[0] == 'spawn']
            waits = w['case'].get('final_phase') in (0, 1)      # model: main keeps waiting (service requested / watch mode)
            # independent targets may be started in either order natively (a native poll also polls the freshly
            # created build future): compare the multiset of starts, the outcome and the exit status
            if sorted(exp) != sorted(got) or (tr.stuck != waits) or (not waits and tr.rc != (1 if w['case'].get('final_err') else 0)):
                rpath = os.path.join(common.REPLAYS, '%s-witness-divergence.json' % prop)
                rp.save_replay(rpath, prop, 'witness divergence', w['case'], sched, args, tr.summary())
                inconclusive.append('%s: encoder/real-code divergence on a witness trace: model spawns %s, real code %s (replay %s)' % (tag, exp, got, rpath))
            else:
                traces_validated += 1
                if len(samples) < 8:
                    samples.append({'case': tag, 'witness': [s['alt'] for s in w['case']['steps'] if s['alt'][0] != 'stutter'], 'native_spawn_order': got, 'native_rc': tr.rc})
    # LOCAL obligations: one actor in an open environment, counterexamples replayed through the single-actor harness
    from .. import local_replay as lr
    for res in lresults:
        tag = 'local %s%s' % (res['kind'], ' watch' if res['watch'] else '')
        if res['error']:
            inconclusive.append('%s: %s' % (tag, res['error']))
            continue
        fns |= set(res['functions'])
        states += res['state_vars'] * (res['L'] + 1)
        transitions += res['alternatives'] * res['L']
        for q in res['queries']:
            nq += 1
            solver_s += q['solver_s']
            if q['verdict'] == 'unsat':
                nunsat += 1
                if len(samples) < 10:
                    samples.append({'case': tag, 'obligation': q['name'], 'verdict': 'unsat', 'solver_s': q['solver_s'], 'L': res['L']})
                continue
            if q['verdict'] != 'sat':
                inconclusive.append('%s: %s: solver returned %s' % (tag, q['name'], q['verdict']))
                continue
            replay_n += 1
            rpath = os.path.join(common.REPLAYS, '%s-local-%d.json' % (prop, replay_n))
            try:
                native, sched, events = lr.run_trace(q['trace'], repo)
                viol = lr.concrete_monitor(q['trace'], native)
                confirmed = q['monitor'] in viol
            except Exception as e:   # pragma: no cover
                inconclusive.append('%s: %s: native replay failed: %s' % (tag, q['name'], e))
                continue
            os.makedirs(common.REPLAYS, exist_ok=True)
            json.dump({'kind': 'local', 'property': prop, 'obligation': q['name'], 'trace': q['trace'], 'events': events, 'schedule': sched,
                       'native': native, 'native_violations': sorted(viol), 'confirmed': confirmed}, open(rpath, 'w'), indent=1, default=str)
            if not confirmed:
                inconclusive.append('%s: %s: solver counterexample did not reproduce on the real actor (replay %s)' % (tag, q['name'], rpath))
                continue
            violations.append(rpath)
            samples.append({'case': tag, 'obligation': q['name'], 'verdict': 'sat (reproduced on the real actor)',
                            'trace': [(s_['alt'][0], s_['msg']) for s_ in q['trace']['steps'] if s_['alt'][0] != 'stutter']})
        w = res.get('witness')
        if w is not None:
            try:
                native, sched, events = lr.run_trace(w, repo)
                n_ok = sum(1 for st in native['steps'] for o in st['out'] if o[1] == 'Ok')
                n_sp = sum(st['spawn'] for st in native['steps'])
                if n_ok != res.get('witness_model_oks') or n_sp != res.get('witness_model_spawns'):
                    inconclusive.append('%s: encoder/real-actor divergence on a witness: model Ok=%s spawn=%s, real actor Ok=%s spawn=%s'
                                        % (tag, res.get('witness_model_oks'), res.get('witness_model_spawns'), n_ok, n_sp))
                else:
                    traces_validated += 1
                    if len(samples) < 12:
                        samples.append({'case': tag, 'witness_events': events[:12], 'native_ok_messages': n_ok, 'native_spawns': n_sp})
            except Exception as e:   # pragma: no cover
                inconclusive.append('%s: witness replay failed: %s' % (tag, e))
        elif not res['error']:
            inconclusive.append('%s: vacuity: no witness run found' % tag)
    sysq_summary = []
    for res in qresults:
        tag = 'sysq %s cap=%d K=%d' % ('/'.join(res['kinds']), res['cap'], res['K'])
        if res['error']:
            inconclusive.append('%s: %s' % (tag, res['error']))
            continue
        for q in res['queries']:
            nq += 1
            solver_s += q['solver_s']
            sysq_summary.append({'case': tag, 'obligation': q['name'], 'verdict': q['verdict'], 'solver_s': q['solver_s'], 'graph_and_root_cases': q['graph_cases'],
                                 'inbox_unbounded_in_source': res.get('inbox_unbounded_in_source')})
            if q['verdict'] == 'unsat':
                nunsat += 1
                continue
            if q['name'].startswith('bound_sufficient'):
                # informational: with the explicit relay some runs are longer than K; the search covers every prefix of length K
                sysq_summary[-1]['meaning'] = 'K does not cover every run: states reachable within K steps are covered, longer runs are outside this search'
                continue
            if q['verdict'] != 'sat':
                undecided.append({'case': tag, 'obligation': q['name'], 'verdict': q['verdict'], 'solver_s': q['solver_s']})
                continue
            case = q['case']
            replay_n += 1
            rpath = os.path.join(common.REPLAYS, '%s-sysq-%d.json' % (prop, replay_n))
            try:
                import tempfile, shutil
                from ..native import build_native, run_native
                binpath, _ = build_native(repo)
                d = tempfile.mkdtemp(prefix='zxq-', dir=os.environ.get('VERIF_SCRATCH', '/var/tmp'))
                try:
                    args = rp.write_project(case, d)
                    sched, order = rp.schedule_for_q(case, d, res['cap'])
                    tr = rp.NativeTrace(run_native(binpath, d, args, sched, timeout=60), case)
                finally:
                    shutil.rmtree(d, ignore_errors=True)
                confirmed = proto.confirm_native(q['confirm'], case, tr)
            except Exception as e:   # pragma: no cover
                inconclusive.append('%s: native replay failed: %s' % (tag, e))
                continue
            rp.save_replay(rpath, prop, q['name'], case, sched, args, tr.summary())
            d_ = json.load(open(rpath))
            d_['kind'] = 'sysq'
            d_['cap'] = res['cap']
            d_['confirm'] = q['confirm']
            json.dump(d_, open(rpath, 'w'), indent=1, default=str)
            if not confirmed:
                inconclusive.append('%s: %s: circular wait did not reproduce on the real code with clamped capacities (replay %s)' % (tag, q['name'], rpath))
                continue
            violations.append(rpath)
            samples.append({'case': tag, 'obligation': q['name'], 'verdict': 'sat (reproduced natively with capacities clamped to %d)' % res['cap'],
                            'graph': case['deps'], 'roots': case['roots'], 'schedule': [s_['alt'] for s_ in case['steps'] if s_['alt'][0] != 'stutter']})
    if prop == 'C06':
        # the clause "no detected change is absorbed by a skip" is about incremental::run, decided over the symbolic file system
        try:
            from . import incr, incr_native
            scs = incr.scenarios(tier)
            idx = [i for i, sc_ in enumerate(scs) if sc_.name == 'single_file'][0]
            res = incr.check_scenario(('C06', idx, tier, repo))
            if res['error']:
                inconclusive.append('absorbed change: %s' % res['error'])
            else:
                fns |= set(res['functions'])
                for ob in res['obligations']:
                    nq += 1
                    if ob['verdict'] == 'unsat':
                        nunsat += 1
                        samples.append({'case': 'incremental::run over the symbolic file system', 'obligation': ob['name'], 'verdict': 'unsat', 'paths': ob['checked_paths']})
                        continue
                    if ob['verdict'] != 'sat':
                        inconclusive.append('%s: solver %s' % (ob['name'], ob['verdict']))
                        continue
                    sc_ = scs[idx]
                    # native: the input is rewritten while the (virtual) script runs, then the tree is left alone
                    import tempfile, shutil
                    from ..native import build_native, run_native
                    binpath, _ = build_native(repo)
                    d = tempfile.mkdtemp(prefix='zx-f6-', dir=os.environ.get('VERIF_SCRATCH', '/var/tmp'))
                    try:
                        open(d + '/zinoma.yml', 'w').write('targets:\n  t:\n    input:\n      - paths: [in.txt]\n    build: echo t\n')
                        open(d + '/in.txt', 'w').write('v1')
                        sched = ['poll 0 t0.1 all', 'poll 2 t0.4 1', 'poll 0 t0.1 all', 'poll 2 t0.4 1', 'poll 0 t0.1 all', 'poll 2 -', 'poll 0 t0.1 all',
                                 'write %s/in.txt v2-edited-during-the-build' % d, 'exitscript 0 echo t', 'poll 2 -', 'drain']
                        r1 = run_native(binpath, d, ['t'], sched, timeout=30)
                        r2 = run_native(binpath, d, ['t'], None, timeout=30)
                        absorbed = r1['rc'] == 0 and not any(l.startswith('proc_spawn') for l in r2['log'])
                    finally:
                        shutil.rmtree(d, ignore_errors=True)
                    replay_n += 1
                    rpath = os.path.join(common.REPLAYS, 'C06-absorbed-%d.json' % replay_n)
                    os.makedirs(common.REPLAYS, exist_ok=True)
                    json.dump({'kind': 'incr', 'obligation': ob, 'native': {'run1_rc': r1['rc'], 'run2_spawned': not absorbed, 'run2_stderr': r2['stderr'][-200:]}, 'confirmed': absorbed}, open(rpath, 'w'), indent=1, default=str)
                    if 'absorbed_change' in known_roles:
                        known_lines.append('KNOWN-FINDING: property=%s %s [%s; replay %s; reproduced natively: %s]' % (prop, known_roles['absorbed_change']['what'], ob['name'], rpath, absorbed))
                    elif absorbed:
                        violations.append(rpath)
                    else:
                        inconclusive.append('%s: not reproduced natively (replay %s)' % (ob['name'], rpath))
        except Exception as e:
            inconclusive.append('absorbed change: %s' % e)
    if prop == 'C17':
        # what a target holds while it waits for something of unbounded duration (decided over incremental::run and below)
        try:
            from . import incr
            res = incr.check_shared_waits((tier, repo))
            if res['error']:
                inconclusive.append('shared waits: %s' % res['error'])
            else:
                fns |= set(res['functions'])
                for ob in res['obligations']:
                    nq += 1
                    if ob['verdict'] == 'unsat':
                        nunsat += 1
                        samples.append({'case': 'incremental::run over the symbolic file system', 'obligation': ob['name'], 'verdict': 'unsat', 'paths': ob['checked_paths'], 'locks_seen': ob['locks_seen']})
                        continue
                    if ob['verdict'] != 'sat':
                        inconclusive.append('%s: solver %s' % (ob['name'], ob['verdict']))
                        continue
                    # native: an unrelated target must still get through while t0 waits for its never-ending command / script
                    import tempfile, shutil
                    from ..native import build_native, run_native
                    binpath, _ = build_native(repo)
                    d = tempfile.mkdtemp(prefix='zx-c17-', dir=os.environ.get('VERIF_SCRATCH', '/var/tmp'))
                    try:
                        open(d + '/zinoma.yml', 'w').write('targets:\n  t0:\n    input:\n      - cmd_stdout: echo zxhang\n    build: echo t0\n  t1:\n    input:\n      - cmd_stdout: echo other\n    build: echo t1\n')
                        r1 = run_native(binpath, d, ['t0', 't1'], None, timeout=60)
                        for f_ in os.listdir(d + '/.zinoma') if os.path.isdir(d + '/.zinoma') else []:
                            if f_.startswith('t1'):
                                os.remove(d + '/.zinoma/' + f_)       # t1 has to run again in the second invocation
                        env = {'ZX_HANG_OUTPUT': 'zxhang'} if ob.get('wait') == 'cmd_output' else {'ZX_HANG_SCRIPT': 'echo t0'}
                        if ob.get('wait') != 'cmd_output':
                            for f_ in os.listdir(d + '/.zinoma') if os.path.isdir(d + '/.zinoma') else []:
                                os.remove(d + '/.zinoma/' + f_)
                        r2 = run_native(binpath, d, ['t0', 't1'], None, timeout=60, extra_env=env)
                    finally:
                        shutil.rmtree(d, ignore_errors=True)
                    last = {}
                    for l in r2['log']:
                        if l.startswith('lock_blocked task=') or l.startswith('lock_acquired task='):
                            last[l.split('task=')[1]] = l.split()[0]
                    waiting = sorted(t for t, ev_ in last.items() if ev_ == 'lock_blocked')
                    t1_done = any(l.startswith('proc_reap') for l in r2['log'] if True) and 'INFO t1 - Build success' in r2['stderr']
                    confirmed = r2['rc'] == 98 and bool(waiting)
                    replay_n += 1
                    rpath = os.path.join(common.REPLAYS, 'C17-shared-wait-%d.json' % replay_n)
                    os.makedirs(common.REPLAYS, exist_ok=True)
                    json.dump({'kind': 'incr', 'obligation': ob, 'native': {'run1_rc': r1['rc'], 'run2_rc': r2['rc'], 'tasks_left_waiting_for_a_lock': waiting, 't1_completed': t1_done,
                                                                          'run2_log_tail': r2['log'][-25:]}, 'confirmed': confirmed}, open(rpath, 'w'), indent=1, default=str)
                    if confirmed:
                        violations.append(rpath)
                        samples.append({'case': 'incremental::run', 'obligation': ob['name'], 'verdict': 'sat (reproduced natively: an unrelated target is left waiting for the lock)', 'detail': ob.get('detail')})
                    else:
                        inconclusive.append('%s: %s; not reproduced natively (replay %s)' % (ob['name'], ob.get('detail'), rpath))
        except Exception as e:
            inconclusive.append('shared waits: %s' % e)
        try:
            res = proto.shared_waits_in_build_future((tier, repo))
            if res['error']:
                inconclusive.append('build future: %s' % res['error'])
            else:
                fns |= set(res['functions'])
                for ob in res['obligations']:
                    nq += 1
                    if ob['verdict'] == 'unsat':
                        nunsat += 1
                        samples.append({'case': 'build future (builder::build_target in incremental::run)', 'obligation': ob['name'], 'verdict': 'unsat', 'paths': ob['checked_paths'], 'shared_objects_seen': ob['shared_objects_seen']})
                        continue
                    nat = proto.native_two_independent_builds(repo)
                    confirmed = 't0' in nat['spawned'] and 't1' not in nat['spawned']
                    replay_n += 1
                    rpath = os.path.join(common.REPLAYS, 'C17-build-slot-%d.json' % replay_n)
                    os.makedirs(common.REPLAYS, exist_ok=True)
                    json.dump({'kind': 'incr', 'obligation': ob, 'native': nat, 'confirmed': confirmed}, open(rpath, 'w'), indent=1, default=str)
                    if confirmed:
                        violations.append(rpath)
                        samples.append({'case': 'build future', 'obligation': ob['name'], 'verdict': 'sat (reproduced natively with one CPU visible: the unrelated build is never started)', 'detail': ob.get('detail')})
                    else:
                        inconclusive.append('%s: %s; not reproduced natively (replay %s)' % (ob['name'], ob.get('detail'), rpath))
        except Exception as e:
            inconclusive.append('build future: %s' % e)
    if prop == 'C20':
        # "requesting an aggregate = requesting its dependencies" starts in the resolver: main() hands the engine the reference closure for
        # an aggregate on the command line and for the targets it lists requested instead (project families of the resolver checks)
        try:
            from . import mainrun
            st = mainrun.stage('C20', tier, repo, jobs)
            violations += st['violations']
            inconclusive += st['inconclusive']
            samples += st['samples'][:4]
            nq += st['nob']
            nunsat += st['ndis']
            fns |= st['fns']
        except Exception as e:   # pragma: no cover
            inconclusive.append('main() stage failed: %s' % e)
    # exit path of main(): terminate() after engine::run on every path (source-derived, see maintail.py)
    if prop in ('C07', 'C10', 'C11'):
        try:
            from . import maintail
            mobs, mfns = maintail.check(repo)
            fns |= set(mfns) | {'main (statements after engine::run)'}
            for ob in mobs:
                nq += 1
                if ob['verdict'] == 'unsat':
                    nunsat += 1
                    samples.append({'case': 'main() exit path', 'obligation': ob['name'], 'verdict': 'unsat', 'paths': ob['paths']})
                    continue
                # native confirmation: a service that is only a dependency of a failing build must be stopped at exit
                case = {'kinds': ['service', 'build'], 'watch': False, 'deps': {0: [], 1: [0]}, 'roots': [1], 'dup_roots': [], 'launch0': [1], 'steps': [], 'hang': []}
                import tempfile, shutil
                from ..native import build_native, run_native
                binpath, _ = build_native(repo)
                d = tempfile.mkdtemp(prefix='zx-tail-', dir=os.environ.get('VERIF_SCRATCH', '/var/tmp'))
                try:
                    args = rp.write_project(case, d)
                    r = run_native(binpath, d, args, None, timeout=60, extra_env={'ZX_FAIL_SCRIPT': 'echo t1'})
                finally:
                    shutil.rmtree(d, ignore_errors=True)
                leaked = any(l.startswith('proc_dropped_unreaped') for l in r['log']) or any(l.startswith('exit_procs_unreaped=[') and not l.endswith('[]') for l in r['log'])
                confirmed = leaked if ob['name'].startswith('terminate') else (r['rc'] != 1)
                replay_n += 1
                rpath = os.path.join(common.REPLAYS, '%s-maintail-%d.json' % (prop, replay_n))
                os.makedirs(common.REPLAYS, exist_ok=True)
                json.dump({'kind': 'maintail', 'obligation': ob, 'native_rc': r['rc'], 'native_log_tail': r['log'][-12:], 'confirmed': confirmed}, open(rpath, 'w'), indent=1, default=str)
                if confirmed:
                    violations.append(rpath)
                    samples.append({'case': 'main() exit path', 'obligation': ob['name'], 'verdict': 'sat (reproduced natively)', 'detail': ob['detail']})
                else:
                    inconclusive.append('main() exit path: %s: not reproduced natively (replay %s)' % (ob['name'], rpath))
        except Exception as e:
            inconclusive.append('main() exit path: %s' % e)
    wall = time.time() - t0
    coverage = {
        'states': max(states, 1), 'transitions': max(transitions, 1), 'traces_validated_against_impl': traces_validated,
        'samples': samples or [{'note': 'no sample'}],
        'explanation': 'symbolic bounded model checking: "states" = state variables x unrolled steps summed over cases (each symbolic state stands for all concrete states), "transitions" = encoded alternatives x steps',
        'obligations': nq, 'discharged': nunsat, 'solver_time_s': round(solver_s, 1),
        'functions_encoded': sorted(fns), 'cases': len(results),
        'bounds': [{'n_targets': n, 'watch': w, 'K_steps': K, 'inbox_capacity_model': q, 'max_notifications': ((1 if (prop == 'C06' and not (n == 2 and K >= 26)) else 2) if w else 0)} for (n, w, K, q) in plan(prop, tier)],
        'outside_claim': ['graphs with more targets than the bound', 'schedules longer than K (K is checked sufficient for quiescence where stated)',
                          'blocking on full channels (capacity 64 is never reached within the bound; see DESIGN F2)', 'real OS scheduling / process groups'],
        'pinned_cases': [{'kinds': r['kinds'], 'graph': r['pinned'], 'K_steps': r['K']} for r in results if r.get('pinned')],
        'exhaustive': False, 'known_finding_instances': known_instances, 'undecided_at_n3': undecided, 'queue_pressure_search': sysq_summary,
        'solver_cross_check': {'what': 'one discharged obligation per case re-decided by z3 5.1.0 (CLI) on the SMT-LIB2 dump of the z3 4.8.12 (API) query; cvc5 1.0.3 does not finish these bit-vector unrollings within 300 s', 'queries': len(cross), 'agree': sum(1 for c in cross if c['agree'] is True), 'disagree': sum(1 for c in cross if c['agree'] is False), 'undecided': sum(1 for c in cross if c['agree'] is None), 'samples': cross[:4]},
        'case_wall_s': {('%s%s' % ('/'.join(r['kinds']), ' watch' if r['watch'] else '')): [r.get('wall_s'), r.get('summary_s'), r.get('unroll_s'), (r.get('witness') or {}).get('solver_s')] for r in results},
    }
    common.write_evidence(prop, tier, seed, 'model_checking', coverage, ASSUMPTIONS, wall, len(violations))
    return common.finish(prop, violations, inconclusive, known_lines)
