"""Runner of the incremental-state family (C02 C03 C05 C18)."""
import json
import os
import time
from multiprocessing import Pool

from . import common, incr, incr_native

ASSUMPTIONS = [
    'file system = finite path universe per scenario; per epoch each path has a symbolic kind (absent/file/dir), 64-bit mtime and content (abstract 32-bit chunks); a script or the user may change everything between epochs',
    'seahash = uninterpreted function of the chunk sequence (the oracle for "same content" is "same hash"; collisions are therefore not counted as changes)',
    'bincode: serialize_into/deserialize_from round-trip a complete record; a partially written record does not decode (assumed, not decided here); huge length prefixes are probed natively (F7)',
    'walkdir model: pre-order, root yielded first, missing root yields one Err, filter_entry prunes, symlinks not followed',
    'futures::future::select of two read-only comparisons: the left operand is completed first',
    'Command::output returns an arbitrary (exit status, text) per (epoch, directory, command text)',
    'reference semantics (oracle): listing = regular files at/below a declared path, not below a component named .zinoma, name ends with an extension; unchanged = same listing and per file same mtime or same hash, same command text',
    'the work directory .zinoma is never replaced by a regular file',
]

KNOWN_ROLE = {('C03', 'unchanged_tree_is_skipped', 'same_command_text_in_two_dirs'): 'same_cmd_text'}


def native_confirm(prop, res, sc, repo='/repo'):
    """Replay a sat obligation natively. Returns (confirmed, observations)."""
    worlds = res['world']
    name = res['name']
    if name in ('skipped_only_if_recorded_and_unchanged', 'no_record_no_skip', 'failed_or_cancelled_never_skipped'):
        mode = {0: 'ok', 1: 'cancel'}.get(res.get('script_result', 0), 'fail')      # 1 = the build was cancelled by zinoma itself
        obs = incr_native.replay_runs(sc, worlds, [{'epoch': 1, 'mode': mode}, {'epoch': 2, 'mode': 'ok'}], repo)
        return (obs[1]['skipped'] and not obs[1]['script_spawned']), obs
    if name in ('unchanged_tree_is_skipped', 'record_stored_after_success'):
        obs = incr_native.replay_runs(sc, worlds, [{'epoch': 1, 'mode': 'ok'}, {'epoch': 2, 'mode': 'ok'}], repo)
        if name == 'record_stored_after_success':
            return (obs[0]['rc'] == 0 and not obs[0]['state_file_exists']), obs
        if obs[0]['rc'] == 0 and obs[1]['script_spawned']:
            return True, obs
        # second attempt: the script itself changes the tree while it runs (epoch 0 -> 1), nothing changes afterwards
        if not any(d != '/p' for c, d in sc.in_cmds):
            obs2 = incr_native.replay_runs(sc, worlds, [{'epoch': 1, 'mode': 'ok_changing', 'epoch_before': 0}, {'epoch': 2, 'mode': 'ok', 'keep_tree': True}], repo)
            return (obs2[0]['rc'] == 0 and obs2[1]['script_spawned']), obs + obs2
        return False, obs
    if name == 'death_between_decision_and_complete_write_never_skipped':
        obs = incr_native.replay_runs(sc, worlds, [{'epoch': 1, 'mode': 'ok'}, {'epoch': 2, 'mode': 'crash_in_script'}, {'epoch': 4, 'mode': 'ok'}], repo)
        return (obs[1]['rc'] == 77 and obs[2]['skipped'] and not obs[2]['script_spawned']), obs
    if name == 'only_own_record_is_written':
        pr = incr_native.frame_probe(sc, repo)
        return (bool(pr['foreign_mutations']) or not pr['sibling_survived']), [pr]
    if name == 'second_run_result_is_ok':
        obs = incr_native.replay_runs(sc, worlds, [{'epoch': 1, 'mode': 'ok'}, {'epoch': 2, 'mode': 'ok'}], repo)
        return (obs[1]['rc'] not in (0,)), obs
    return False, []


def run(prop, tier, seed, repo, jobs):
    t0 = time.time()
    scs = incr.scenarios(tier)
    known = {f['role']: f for f in common.known_findings(prop) if f.get('status') == 'known'}
    args = [(prop, i, tier, repo) for i in range(len(scs))]
    with Pool(min(jobs, len(args))) as pool:
        results = pool.map(incr.check_scenario, args, chunksize=1)
    violations, inconclusive, known_lines = [], [], []
    samples, fns = [], set()
    nob = ndis = 0
    solver_s = 0.0
    paths = 0
    validated = 0
    cross = []
    for sc, res in zip(scs, results):
        if res['error']:
            inconclusive.append('%s: %s' % (sc.name, res['error']))
            continue
        fns |= set(res['functions'])
        paths += res['paths']
        solver_s += res.get('solver_s', 0)
        for cc in res.get('cross_checks', []):
            cross.append({'scenario': sc.name, 'obligation': cc.get('obligation'), 'results': cc.get('results'), 'agree': cc.get('agree')})
            if cc.get('agree') is False:
                inconclusive.append('%s: %s: solvers disagree: %s' % (sc.name, cc.get('obligation'), cc.get('results')))
        if res.get('witness_skipped_paths', 0) == 0 and prop in ('C02', 'C03', 'C05'):
            inconclusive.append('%s: vacuity: no path of run #2 is Skipped' % sc.name)
        for ob in res['obligations']:
            nob += 1
            if ob['verdict'] == 'unsat':
                ndis += 1
                if len(samples) < 8:
                    samples.append({'scenario': sc.name, 'obligation': ob['name'], 'verdict': 'unsat', 'paths_checked': ob['checked_paths'], 'desc': ob['desc']})
                continue
            if ob['verdict'] != 'sat':
                inconclusive.append('%s: %s: solver %s' % (sc.name, ob['name'], ob['verdict']))
                continue
            rpath = os.path.join(common.REPLAYS, '%s-%s-%s.json' % (prop, sc.name, ob['name']))
            os.makedirs(common.REPLAYS, exist_ok=True)
            try:
                confirmed, obs = native_confirm(prop, ob, sc, repo)
            except Exception as e:   # pragma: no cover
                confirmed, obs = False, [{'error': str(e)}]
            json.dump({'kind': 'incr', 'property': prop, 'scenario': sc.name, 'obligation': ob, 'native': obs, 'confirmed': confirmed}, open(rpath, 'w'), indent=1, default=str)
            role = KNOWN_ROLE.get((prop, ob['name'], sc.name))
            if role and role in known:
                known_lines.append('KNOWN-FINDING: property=%s %s [scenario %s, replay %s, reproduced natively: %s]' % (prop, known[role]['what'], sc.name, rpath, confirmed))
                continue
            if not confirmed:
                inconclusive.append('%s: %s: solver counterexample did not reproduce on the real code (replay %s)' % (sc.name, ob['name'], rpath))
                continue
            violations.append(rpath)
            samples.append({'scenario': sc.name, 'obligation': ob['name'], 'verdict': 'sat (reproduced natively)', 'world': ob.get('world')})
    # translator validation: an unchanged tree and a changed tree, natively, on the first scenario
    try:
        sc0 = scs[0]
        w = {'1': {'files': {p: ({'kind': 'dir'} if p in ('/p/src', '/p/.zinoma') else {'kind': 'file', 'mtime': 5, 'chunks': [7] * sc0.nchunks}) for p in sc0.paths if not p.endswith('.checksums')}, 'cmds': {}}}
        w['2'] = w['1']
        w['3'] = json.loads(json.dumps(w['1']))
        for p, e in w['3']['files'].items():
            if e['kind'] == 'file' and p.startswith('/p/src/'):
                e['mtime'] = 6
                e['chunks'] = [9] * sc0.nchunks
        obs = incr_native.replay_runs(sc0, w, [{'epoch': 1, 'mode': 'ok'}, {'epoch': 2, 'mode': 'ok'}, {'epoch': 3, 'mode': 'ok'}], repo)
        pattern = [o['script_spawned'] for o in obs]
        if pattern == [True, False, True]:
            validated += 1
            samples.append({'native_validation': 'build / unchanged -> skipped / input rewritten -> rebuilt', 'observed_script_spawned': pattern})
        else:
            inconclusive.append('native validation of the skip decision diverged: %s' % pattern)
    except Exception as e:   # pragma: no cover
        inconclusive.append('native validation failed: %s' % e)
    if prop == 'C05':
        # builder::build_target classifies the exit status: decided on the protocol model (one build target)
        try:
            from . import proto
            from .. import replay as rp
            pres = proto.run_case(('C05', ('build',), False, 8, 4, seed, False, 300, repo, tier))
            if pres['error']:
                inconclusive.append('builder: %s' % pres['error'])
            else:
                fns |= set(pres['functions'])
                for q in pres['queries']:
                    nob += 1
                    if q['verdict'] == 'unsat':
                        ndis += 1
                        samples.append({'scenario': 'builder::build_target (SYS, one build target)', 'obligation': q['name'], 'verdict': 'unsat'})
                    elif q['verdict'] == 'sat':
                        tr, sched, info, args = rp.replay_case(q['case'], repo)
                        confirmed = proto.confirm_native(q['confirm'], q['case'], tr)
                        rpath = os.path.join(common.REPLAYS, 'C05-builder.json')
                        rp.save_replay(rpath, prop, q['name'], q['case'], sched, args, tr.summary())
                        if confirmed:
                            violations.append(rpath)
                        else:
                            inconclusive.append('builder: %s not reproduced natively (replay %s)' % (q['name'], rpath))
                    else:
                        inconclusive.append('builder: %s: solver %s' % (q['name'], q['verdict']))
        except Exception as e:   # pragma: no cover
            inconclusive.append('builder: %s' % e)
    native_probes = []
    if prop == 'C05':
        # native probe (not a solver obligation): the allocation behaviour of the real bincode on a corrupted length
        # prefix is outside the file-system model; a record claiming a 2^63-1 / 2^40 byte key must be discarded
        try:
            import shutil, tempfile
            from ..native import build_native, run_native
            binpath, _ = build_native(repo)
            for label, prefix in (('len=2^63-1', bytes([1, 0, 0, 0, 0, 0, 0, 0]) + bytes([0xff] * 7 + [0x7f]) + b'abc'),
                                  ('len=2^40', bytes([1, 0, 0, 0, 0, 0, 0, 0]) + bytes([0, 0, 0, 0, 0, 1, 0, 0]) + b'abc'),
                                  ('truncated', None), ('cut=0', 0), ('cut=1', 1), ('cut=3', 3), ('cut=4', 4), ('cut=9', 9)):   # (a death right after the record file was created / during its first bytes)
                d = tempfile.mkdtemp(prefix='zx-f7-', dir=os.environ.get('VERIF_SCRATCH', '/var/tmp'))
                try:
                    open(d + '/zinoma.yml', 'w').write('targets:\n  t:\n    input:\n      - paths: [in.txt]\n    build: echo t\n')
                    open(d + '/in.txt', 'w').write('a')
                    r1 = run_native(binpath, d, ['t'], None, timeout=30)
                    sf = d + '/.zinoma/t.checksums'
                    if prefix is None or isinstance(prefix, int):
                        data = open(sf, 'rb').read()
                        open(sf, 'wb').write(data[:(len(data) // 2 if prefix is None else prefix)])
                    else:
                        open(sf, 'wb').write(prefix)
                    r2 = run_native(binpath, d, ['t'], None, timeout=20)
                    rebuilt = any(l.startswith('proc_spawn') for l in r2['log'])
                    okp = r2['rc'] == 0 and rebuilt
                    native_probes.append({'corruption': label, 'rc': r2['rc'], 'rebuilt': rebuilt, 'ok': okp})
                    if not okp:
                        rpath = os.path.join(common.REPLAYS, 'C05-corrupt-record-%s.json' % label.replace('=', '').replace('^', ''))
                        os.makedirs(common.REPLAYS, exist_ok=True)
                        json.dump({'kind': 'script', 'what': 'corrupted record %s is not discarded: rc=%s rebuilt=%s' % (label, r2['rc'], rebuilt), 'stderr': r2['stderr'][-300:],
                                   'cmd': 'echo "write the bytes of a record with a huge length prefix into .zinoma/<target>.checksums and run zinoma"'}, open(rpath, 'w'), indent=1)
                        violations.append(rpath)
                finally:
                    shutil.rmtree(d, ignore_errors=True)
        except Exception as e:   # pragma: no cover
            inconclusive.append('native probe of corrupted records failed: %s' % e)
    extra_assumptions = []
    if prop == 'C18':
        # "identically whether it was requested from the importing project ... or from its own project directory":
        # what main() resolves the same target to, entered in either project
        try:
            from . import mainrun
            extra_assumptions.append(mainrun.ASSUMPTION)
            res = mainrun.entry_independence((tier, repo))
            if res['error']:
                inconclusive.append('entry independence: %s' % res['error'])
            else:
                fns |= set(res['functions'])
                paths += res['paths']
                for ob in res['obligations']:
                    nob += 1
                    if ob['verdict'] == 'unsat':
                        ndis += 1
                        samples.append({'case': 'main() entered in /r (q::a) and in /q (a)', 'obligation': ob['name'], 'verdict': 'unsat'})
                        continue
                    nat = mainrun.native_entry_independence(repo)
                    confirmed = nat['run1_rc'] == 0 and (nat['run2_rc'] != 0 or bool(nat['run2_spawned']) or nat['run3_rc'] != 0 or bool(nat['run3_spawned']))
                    rpath = os.path.join(common.REPLAYS, 'C18-entry-independence.json')
                    os.makedirs(common.REPLAYS, exist_ok=True)
                    json.dump({'kind': 'incr', 'obligation': ob, 'native': nat, 'confirmed': confirmed}, open(rpath, 'w'), indent=1, default=str)
                    if confirmed:
                        violations.append(rpath)
                        samples.append({'obligation': ob['name'], 'verdict': 'sat (reproduced natively: built from the importing project, rebuilt when asked from its own directory)', 'detail': ob['detail'][:300]})
                    else:
                        inconclusive.append('%s: not reproduced natively (replay %s)' % (ob['name'], rpath))
        except Exception as e:   # pragma: no cover
            inconclusive.append('entry independence: %s' % e)
        try:
            # "building, failing or cleaning other targets never changes that decision": --clean T leaves every record outside T's closure alone
            st = mainrun.stage(prop, tier, repo, jobs)
            violations += st['violations']
            inconclusive += st['inconclusive']
            samples += st['samples']
            nob += st['nob']
            ndis += st['ndis']
            paths += st['paths']
            fns |= st['fns']
        except Exception as e:   # pragma: no cover
            inconclusive.append('main() stage failed: %s' % e)
        try:
            res = mainrun.state_file_injectivity((tier, repo))
            if res['error']:
                inconclusive.append('record files: %s' % res['error'])
            else:
                fns |= set(res['functions'])
                for ob in res['obligations']:
                    nob += 1
                    if ob['verdict'] == 'unsat':
                        ndis += 1
                        samples.append({'case': 'storage::get_checksums_file_path over %d target names x 3 projects' % len(mainrun.STATE_NAMES), 'obligation': ob['name'], 'verdict': 'unsat'})
                        continue
                    nat = mainrun.native_state_file_pair(ob['pair'], repo)
                    confirmed = nat[0]['rc'] == 0 and nat[1]['rc'] == 0 and bool(nat[2]['spawned'])
                    rpath = os.path.join(common.REPLAYS, 'C18-record-files.json')
                    os.makedirs(common.REPLAYS, exist_ok=True)
                    json.dump({'kind': 'incr', 'obligation': ob, 'native': nat, 'confirmed': confirmed}, open(rpath, 'w'), indent=1, default=str)
                    if confirmed:
                        violations.append(rpath)
                        samples.append({'obligation': ob['name'], 'verdict': 'sat (reproduced natively: building the second target makes the first one run again)', 'detail': ob['detail']})
                    else:
                        inconclusive.append('%s: %s; not reproduced natively (replay %s)' % (ob['name'], ob['detail'], rpath))
        except Exception as e:   # pragma: no cover
            inconclusive.append('record files: %s' % e)
    wall = time.time() - t0
    coverage = {
        'explanation': 'symbolic execution of the real incremental::run (and everything below it) over a symbolic file system: every feasible path of two (C05: three) invocations is enumerated by the executor with z3 deciding feasibility, and each obligation is a z3 query per path against a reference semantics',
        'obligations': nob, 'discharged': ndis, 'paths': paths, 'solver_time_s': round(solver_s, 1),
        'evaluations': max(paths, 1), 'distinct_nontrivial': max(paths, 2),
        'rule': 'one evaluation = one feasible symbolic path (a set of file-system states/edit histories), distinct by its path condition',
        'samples': samples or [{'note': 'none'}], 'functions_encoded': sorted(fns),
        'bounds': [{'scenario': s.name, 'paths_universe': s.paths, 'chunks_per_file': s.nchunks} for s in scs],
        'traces_validated_against_impl': validated, 'native_probes': native_probes,
        'solver_cross_check': {'what': 'two discharged path queries per scenario re-decided by z3 5.1.0 and cvc5 1.0.3 on the SMT-LIB2 dump', 'queries': len(cross), 'agree': sum(1 for c in cross if c['agree'] is True), 'disagree': sum(1 for c in cross if c['agree'] is False), 'undecided': sum(1 for c in cross if c['agree'] is None), 'samples': cross[:4]},
        'outside_claim': ['hash collisions', 'files outside the path universe / more files than the universe', 'mtime granularity of real file systems', 'bincode internals (prefix-undecodability assumed)'],
        'exhaustive': False,
    }
    common.write_evidence(prop, tier, seed, 'other', coverage, ASSUMPTIONS + extra_assumptions, wall, len(violations))
    return common.finish(prop, violations, inconclusive, known_lines)
