"""Incremental-state family (C02 C03 C05, parts of C13 C18): two invocations of the real
`incremental::run` over a symbolic file system, decided path by path with z3."""
import time

import z3

from ..interp import Frame, Interp, PanicEx, ReturnEx
from ..prog import Program, Unsupported
from ..values import NONE, UNIT, Opaque, REnum, RMap, RSet, RStruct, RTuple, RVec, Union, b_and, b_not, b_or, err, ok, simp, some
from ..vfsworld import ABSENT, DIR, FILE, LINK, Hfin, Hinit, Hstep, VfsWorld, parent
from ..actors import tid


class CrashEx(Exception):
    pass


def files_resource(paths, exts=None):
    e = NONE if exts is None else some(RSet({x: (True, x) for x in exts}, ordered=True))
    return RStruct('FilesResource', {'paths': RVec.of(paths), 'extensions': e})


def cmd_resource(cmd, d):
    return RStruct('CmdResource', {'cmd': cmd, 'dir': d})


def resources(files=(), cmds=()):
    return RStruct('Resources', {'files': RVec.of(files), 'cmds': RVec.of(cmds)})


class Scenario:
    """Declared resources + path universe of one query."""

    def __init__(self, name, paths, in_files, in_cmds, out_files, out_cmds, nchunks=1, links=None):
        self.name = name
        self.paths = paths
        self.links = dict(links or {})      # path -> target path: the path may be a symbolic link to the target (a file, a directory or nothing)
        self.in_files, self.in_cmds, self.out_files, self.out_cmds = in_files, in_cmds, out_files, out_cmds
        self.nchunks = nchunks
        self.state_file = '/p/.zinoma/t.checksums'

    def input(self):
        return resources([files_resource(p, e) for p, e in self.in_files], [cmd_resource(c, d) for c, d in self.in_cmds])

    def output(self):
        return resources([files_resource(p, e) for p, e in self.out_files], [cmd_resource(c, d) for c, d in self.out_cmds])


def scenarios(tier):
    base = ['/p/.zinoma', '/p/.zinoma/t.checksums']
    s = []
    s.append(Scenario('dir_input_plain_output', base + ['/p/src', '/p/src/a', '/p/out'],
                      [(['/p/src'], None)], [], [(['/p/out'], None)], []))
    s.append(Scenario('ext_filter_and_command', base + ['/p/src', '/p/src/a.rs', '/p/src/b.txt'],
                      [(['/p/src'], ['.rs'])], [('c1', '/p')], [], []))
    s.append(Scenario('same_command_text_in_two_dirs', base + ['/p/in'],
                      [(['/p/in'], None)], [('c', '/p'), ('c', '/q')], [], []))
    s.append(Scenario('single_file', base + ['/p/in'], [(['/p/in'], None)], [], [], []))
    s.append(Scenario('linked_file_in_input_dir', base + ['/p/src', '/p/src/l', '/t'], [(['/p/src'], None)], [], [], [], links={'/p/src/l': '/t'}))
    s.append(Scenario('overlapping_resources', base + ['/p/d', '/p/d/f'], [(['/p/d'], None), (['/p/d/f', '/p/d'], None)], [], [(['/p/d/f'], None)], []))
    # the same command reaches the input twice (declared by the target and inherited again through a producer's output)
    s.append(Scenario('same_command_declared_and_inherited', base + ['/p/in'], [(['/p/in'], None)], [('c', '/p'), ('c', '/p')], [], []))
    # a declared path nested under another declared path of another resource, the outer one filtered, the inner one not
    s.append(Scenario('unfiltered_path_nested_under_filtered', base + ['/p/src', '/p/src/a.rs', '/p/src/gen', '/p/src/gen/s.json'],
                      [(['/p/src'], ['.rs']), (['/p/src/gen'], None)], [], [], []))
    if tier == 'thorough':
        s.append(Scenario('two_files_and_output_dir', base + ['/p/src', '/p/src/a', '/p/src/b', '/p/out', '/p/out/x.o'],
                          [(['/p/src'], None)], [], [(['/p/out'], ['.o'])], []))
        s.append(Scenario('nested_and_workdir', base + ['/p/src', '/p/src/a', '/p/src/sub', '/p/src/sub/c', '/p/src/.zinoma', '/p/src/.zinoma/s'],
                          [(['/p/src'], None)], [], [], [('oc', '/p')]))
        s.append(Scenario('two_resources_sharing_paths', base + ['/p/src', '/p/src/a.rs', '/p/src/a.c', '/p/lib'],
                          [(['/p/src'], ['.rs']), (['/p/src', '/p/lib'], ['.c'])], [], [(['/p/lib'], None)], [], nchunks=2))
    return s


# ---------------------------------------------------------------------- reference semantics (the oracle)
def listed_spec(world, e, files_res):
    """Reference: set of paths a list of files resources denotes in epoch e: {path: z3 Bool}."""
    out = {}
    for paths, exts in files_res:
        for root in paths:
            for p in world.paths:
                if not (p == root or p.startswith(root.rstrip('/') + '/')):
                    continue
                # components from the root (inclusive) downwards must not be named .zinoma
                rel = [root.rstrip('/').split('/')[-1]] + ([c for c in p[len(root):].split('/') if c] if p != root else [])
                if '.zinoma' in rel:
                    continue
                name = p.rstrip('/').split('/')[-1]
                if exts is not None and not any(name.endswith(x) for x in exts):
                    continue
                g = world.sym_kind(e, p) == FILE
                if p in world.links:
                    # a symbolic link that resolves to a regular file counts as that file (stat semantics, as Path::is_file)
                    g = z3.Or(g, z3.And(world.sym_kind(e, p) == LINK, world.sym_kind(e, world.links[p]) == FILE))
                out[p] = z3.Or(out[p], g) if p in out else g
    return out


def res_mtime(world, e, p):
    """Modification time seen through p in epoch e (a link shows its target's)."""
    if p in world.links:
        return z3.If(world.sym_kind(e, p) == LINK, world.sym_mtime(e, world.links[p]), world.sym_mtime(e, p))
    return world.sym_mtime(e, p)


def res_chunk(world, e, p, j):
    if p in world.links:
        return z3.If(world.sym_kind(e, p) == LINK, world.sym_chunk(e, world.links[p], j), world.sym_chunk(e, p, j))
    return world.sym_chunk(e, p, j)


def content_hash(world, e, p):
    h = Hinit
    for j in range(world.nchunks):
        h = Hstep(h, res_chunk(world, e, p, j))
    return Hfin(h)


def unchanged_spec(world, sc, e1, e2):
    """Reference for 'nothing declared changed between epochs e1 and e2' in the property's sense:
    same denoted file set, each file same mtime or same content (hash), every command prints the same text."""
    cs = []
    for res in (sc.in_files, sc.out_files):
        l1 = listed_spec(world, e1, res)
        l2 = listed_spec(world, e2, res)
        for p in set(l1) | set(l2):
            a = l1.get(p, z3.BoolVal(False))
            b = l2.get(p, z3.BoolVal(False))
            cs.append(a == b)
            cs.append(z3.Implies(z3.And(a, b), z3.Or(res_mtime(world, e1, p) == res_mtime(world, e2, p), content_hash(world, e1, p) == content_hash(world, e2, p))))
    for cmds in (sc.in_cmds, sc.out_cmds):
        for c, d in cmds:
            k1 = 'e%d_%s_%s' % (e1, d, c)
            k2 = 'e%d_%s_%s' % (e2, d, c)
            cs.append(z3.BitVec('cmd_out_' + k1, 32) == z3.BitVec('cmd_out_' + k2, 32))
    return z3.And(cs) if cs else z3.BoolVal(True)


def identical_spec(world, sc, e1, e2):
    """Nothing at all changed (premise of C03): every symbol of the two epochs is equal and no command fails."""
    cs = []
    for p in world.paths:
        cs.append(world.sym_kind(e1, p) == world.sym_kind(e2, p))
        cs.append(world.sym_mtime(e1, p) == world.sym_mtime(e2, p))
        for j in range(world.nchunks):
            cs.append(world.sym_chunk(e1, p, j) == world.sym_chunk(e2, p, j))
    for cmds in (sc.in_cmds, sc.out_cmds):
        for c, d in cmds:
            for e in (e1, e2):
                k = 'e%d_%s_%s' % (e, d, c)
                cs.append(z3.Not(z3.Bool('cmd_io_err_' + k)))
                cs.append(z3.Bool('cmd_ok_' + k))
            cs.append(z3.BitVec('cmd_out_e%d_%s_%s' % (e1, d, c), 32) == z3.BitVec('cmd_out_e%d_%s_%s' % (e2, d, c), 32))
    return z3.And(cs)


# ---------------------------------------------------------------------- running the real code
class TwoRuns:
    """run #1 (no record on disk, script result symbolic) ; arbitrary change ; run #2."""

    def __init__(self, prog, sc, crash=False):
        self.prog = prog
        self.sc = sc
        self.crash = crash
        self.world = VfsWorld(sc.paths, nchunks=sc.nchunks, state_files=[sc.state_file], always_dirs=('/', '/p', '/q'), links=sc.links)
        self.I = Interp(prog, self.world, stubs={}, max_paths=int(__import__("os").environ.get("ZX_MAXPATHS","60000")))
        self.I.solver.set('timeout', 30000)
        w = self.world
        w.run_script = self.run_script
        self.script_result = z3.BitVec('script_result', 2)   # 0 completed, 1 cancelled, 2 error
        self.crash_at = z3.BitVec('crash_at', 4)
        self.meta = RStruct('TargetMetadata', {'id': tid('t'), 'project_dir': '/p', 'dependencies': RVec()})
        self.fd = prog.find_fn('incremental::run')
        self.stats = {'paths': 0}

    def run_script(self, I, f):
        """The build script: arbitrary effect on the file system, then a symbolic termination report."""
        self.world.mutation_point(I, 'script running')
        I.effect('script')
        self.world.havoc()
        self.world.mutation_point(I, 'script finished')
        r = f.get('result')
        return r

    def _future(self, which):
        if which == 1:
            res = Union([
                (self.script_result == 0, ok(REnum('BuildTerminationReport', 'Completed'))),
                (self.script_result == 1, ok(REnum('BuildTerminationReport', 'Cancelled'))),
                (z3.UGE(self.script_result, 2), err(Opaque('Error', msg='build failed', site=0, file=''))),
            ])
        else:
            res = ok(REnum('BuildTerminationReport', 'Completed'))
        return Opaque('Future', kind='script', result=res)

    def _one(self, which):
        I = self.I
        fut = Opaque('Future', kind='call', fd=self.fd, args=RTuple([self.meta, self.sc.input(), some(self.sc.output()), self._future(which)]), self_arg=None)
        return I.await_value(fut, {'_id': -10 - which, 'line': 0, '_file': 'incr'})

    def _mk_init(self, epoch, prior=None):
        I, w, sc = self.I, self.world, self.sc

        def init():
            w.reset()
            w.epoch = epoch
            I.frames.append(Frame(None, (), None))
            if prior is None:
                w.over[sc.state_file] = ('absent',)       # no record before the first run
                w.prior_state = None
            else:
                kind_term, value_fn = prior
                w.over[sc.state_file] = ('sym', kind_term)
                w.prior_state = value_fn
        return init

    def phase1(self):
        """Run #1 from a tree without record; returns raw paths."""
        I, w, sc = self.I, self.world, self.sc
        w.on_mutation = self._crash_hook if self.crash else None

        def thunk():
            self.mut_count = 0
            try:
                r1 = I.deref(self._one(1))
            except CrashEx:
                r1 = 'crashed'
            return {'r1': r1, 'state': w.over.get(sc.state_file), 'workdir': w.over.get('/p/.zinoma'), 'epoch': w.epoch}
        I.solver.reset()
        for c in w.constraints(range(0, 3)):
            I.solver.add(c)
        t0 = time.time()
        paths = I.explore(thunk, self._mk_init(0))
        self.stats['paths1'] = len(paths)
        self.stats['time1'] = round(time.time() - t0, 1)
        return paths

    def _crash_hook(self, I, desc):
        k = self.mut_count
        self.mut_count += 1
        self.mutation_descs = getattr(self, 'mutation_descs', {})
        self.mutation_descs.setdefault(k, desc)
        if I.branch(self.crash_at == k):
            raise CrashEx()

    def run_phase(self, epoch, prior, which=2, crash=False):
        """Explore one invocation starting in `epoch` with the record on disk given by prior=(kind, written, value)."""
        I, w, sc = self.I, self.world, self.sc
        kind_term, written, val = prior

        def prior_fn(I_, path):
            if val is None:
                return err(Opaque('Error', msg='bincode: invalid data', site=0, file=''))
            if I_.branch(written):
                return ok(val)
            return err(Opaque('Error', msg='bincode: invalid data', site=0, file=''))
        w.on_mutation = self._crash_hook if crash else None

        def thunk():
            self.mut_count = 0
            try:
                r = I.deref(self._one(which))
            except CrashEx:
                r = 'crashed'
            return {'r1': r, 'r2': r, 'state': w.over.get(sc.state_file), 'epoch': w.epoch}
        I.solver.reset()
        for c in w.constraints(range(0, 6)):
            I.solver.add(c)
        paths = I.explore(thunk, self._mk_init(epoch, (kind_term, prior_fn)))
        w.on_mutation = None
        return paths

    def merged_record_after(self, paths, prior):
        """Record on disk after a phase, given the record before it (prior) -- one symbolic value."""
        from ..values import merge
        pk, pw, pv = prior
        pkz = pk
        kind = None
        written = False
        val = pv
        incomplete_crash = False
        for p in paths:
            if p.outcome != 'return':
                continue
            st = p.value['state']
            c = p.cond()
            cz = z3.BoolVal(c) if isinstance(c, bool) else c
            if st is not None and st[0] == 'sym':
                k_here, w_here, v_here = pkz, pw, pv          # untouched: the earlier record is still there
            elif st is None or st[0] == 'absent':
                k_here, w_here, v_here = z3.BitVecVal(ABSENT, 2), False, None
            elif st[0] == 'state' and st[1] not in ('empty', 'corrupt'):
                k_here, w_here, v_here = z3.BitVecVal(FILE, 2), True, st[1]
            else:
                k_here, w_here, v_here = z3.BitVecVal(FILE, 2), False, None
            kind = k_here if kind is None else z3.If(cz, k_here, kind)
            written = b_or(written, b_and(c, w_here))
            if v_here is not None:
                val = v_here if val is None else merge(c, v_here, val)
            if p.value['r1'] == 'crashed' and not (st is not None and st[0] == 'state' and st[1] not in ('empty', 'corrupt')):
                incomplete_crash = b_or(incomplete_crash, c)
        return (kind if kind is not None else pkz, written, val), incomplete_crash

    def merged_record(self, paths1):
        """Disk content of the state file after run #1 as ONE symbolic value: (kind term, written guard, value)."""
        from ..values import merge
        written = False
        exists = False
        val = None
        for p in paths1:
            if p.outcome != 'return':
                continue
            st = p.value['state']
            c = p.cond()
            if st is not None and st[0] == 'state':
                exists = b_or(exists, c)
                if st[1] not in ('empty', 'corrupt'):
                    val = st[1] if val is None else merge(c, st[1], val)
                    written = b_or(written, c)
        kind_term = z3.If(z3.BoolVal(exists) if isinstance(exists, bool) else exists, z3.BitVecVal(FILE, 2), z3.BitVecVal(ABSENT, 2))
        return kind_term, written, val

    def phase2(self, paths1):
        I, w, sc = self.I, self.world, self.sc
        kind_term, written, val = self.merged_record(paths1)
        self.written = written

        def prior(I_, path):
            if val is None:
                return err(Opaque('Error', msg='bincode: invalid data', site=0, file=''))
            if I_.branch(written):
                return ok(val)
            return err(Opaque('Error', msg='bincode: invalid data', site=0, file=''))
        w.on_mutation = None

        def thunk():
            r2 = I.deref(self._one(2))
            return {'r2': r2}
        I.solver.reset()
        for c in w.constraints(range(0, 4)):
            I.solver.add(c)
        # the run-#1 path conditions partition the space: exactly one holds
        t0 = time.time()
        paths = I.explore(thunk, self._mk_init(2, (kind_term, prior)))
        self.stats['paths2'] = len(paths)
        self.stats['time2'] = round(time.time() - t0, 1)
        return paths


# ---------------------------------------------------------------------- obligations
def _solver(world, extra=()):
    s = z3.Solver()
    s.set('timeout', 60000)
    for c in world.constraints(range(0, 6)):
        s.add(c)
    for c in extra:
        s.add(c)
    return s


def decode_world(world, sc, m, epochs=(0, 1, 2, 3, 4)):
    """Concrete file-system / command state of the given epochs from a model."""
    out = {}
    for e in epochs:
        st = {}
        for p in world.paths:
            k = m.eval(world.sym_kind(e, p), model_completion=True).as_long()
            ent = {'kind': ['absent', 'file', 'dir', 'link'][k]}
            if k == LINK:
                ent['target'] = world.links.get(p)
            if k == FILE:
                ent['mtime'] = m.eval(world.sym_mtime(e, p), model_completion=True).as_long()
                ent['chunks'] = [m.eval(world.sym_chunk(e, p, j), model_completion=True).as_long() for j in range(world.nchunks)]
            st[p] = ent
        cmds = {}
        for cmdl in (sc.in_cmds, sc.out_cmds):
            for c, d in cmdl:
                key = 'e%d_%s_%s' % (e, d, c)
                cmds['%s|%s' % (d, c)] = {'out': m.eval(z3.BitVec('cmd_out_' + key, 32), model_completion=True).as_long(),
                                          'ok': z3.is_true(m.eval(z3.Bool('cmd_ok_' + key), model_completion=True)),
                                          'io_err': z3.is_true(m.eval(z3.Bool('cmd_io_err_' + key), model_completion=True))}
        out[str(e)] = {'files': st, 'cmds': cmds}
    return out


def check_scenario(arg):
    """Worker: explore one scenario and discharge the obligations of `prop`. Returns dict."""
    prop, idx, tier, repo = arg
    t0 = time.time()
    out = {'scenario': None, 'obligations': [], 'error': None, 'paths': 0, 'functions': []}
    try:
        prog = Program(repo)
        sc = scenarios(tier)[idx]
        out['scenario'] = sc.name
        crash = False
        tr = TwoRuns(prog, sc, crash=crash)
        p1 = tr.phase1()
        p2 = tr.phase2(p1)
        w = tr.world
        out['paths'] = len(p1) + len(p2)
        out['functions'] = sorted(tr.I.stats['fns'])
        out['explore_s'] = round(time.time() - t0, 1)
        written = tr.written
        wz = z3.BoolVal(written) if isinstance(written, bool) else written
        solver_s = 0.0

        def oblige(name, conds_per_path, desc):
            """conds_per_path: list of (path, formula) -- obligation holds iff every formula is unsat."""
            nonlocal solver_s
            res = {'name': name, 'desc': desc, 'checked_paths': len(conds_per_path), 'verdict': 'unsat'}
            s = _solver(w)
            for p, f in conds_per_path:
                ts = time.time()
                s.push()
                s.add(p.cond() if not isinstance(p.cond(), bool) else z3.BoolVal(p.cond()))
                s.add(f)
                r = s.check()
                solver_s += time.time() - ts
                if r == z3.sat:
                    m = s.model()
                    res['verdict'] = 'sat'
                    res['world'] = decode_world(w, sc, m)
                    res['script_result'] = m.eval(tr.script_result, model_completion=True).as_long()
                    res['crash_at'] = m.eval(tr.crash_at, model_completion=True).as_long() if crash else None
                    res['mutation_points'] = getattr(tr, 'mutation_descs', {})
                    res['model_r2'] = str(p.value.get('r2')) if p.outcome == 'return' else p.outcome
                    s.pop()
                    break
                if r != z3.unsat:
                    res['verdict'] = 'unknown'
                elif len(out.setdefault('cross_checks', [])) < 2 and not isinstance(p.cond(), bool):
                    try:
                        from .common import cross_check
                        cc = cross_check(list(s.assertions()), 'unsat', timeout_s=60)
                        cc['obligation'] = name
                        out['cross_checks'].append(cc)
                    except Exception as e:   # pragma: no cover
                        out['cross_checks'].append({'obligation': name, 'error': str(e)[:200], 'agree': None, 'results': {}})
                s.pop()
            out['obligations'].append(res)

        ret2 = [p for p in p2 if p.outcome == 'return']
        skipped = [p for p in ret2 if _is(p.value['r2'], 'Skipped')]
        notskipped = [p for p in ret2 if not _is(p.value['r2'], 'Skipped')]
        bad = [p for p in p1 + p2 if p.outcome != 'return']
        out['witness_skipped_paths'] = len(skipped)
        if prop in ('C02', 'C05', 'C03', 'C18'):
            oblige('no_panic_no_stuck', [(p, z3.BoolVal(True)) for p in bad], 'every path of both runs returns (no panic, no unexpected suspension)')
        if prop == 'C02':
            un = unchanged_spec(w, sc, 1, 2)
            oblige('skipped_only_if_recorded_and_unchanged', [(p, z3.Not(z3.And(wz, un))) for p in skipped],
                   'run #2 = Skipped implies run #1 completed and stored its record and nothing declared changed (reference listing/mtime-or-hash/command text)')
            oblige('second_run_result_is_ok', [(p, z3.BoolVal(True)) for p in ret2 if _is_err(p.value['r2'])], 'a changed or unreadable tree never makes run #2 fail (script result is Completed here)')
        if prop == 'C03':
            ident = identical_spec(w, sc, 1, 2)
            oblige('unchanged_tree_is_skipped', [(p, z3.And(wz, ident)) for p in notskipped],
                   'record stored by run #1 and nothing changed at all => run #2 is Skipped')
            nocmderr = z3.And([z3.And(z3.Not(z3.Bool('cmd_io_err_e1_%s_%s' % (d, c))), z3.Bool('cmd_ok_e1_%s_%s' % (d, c))) for cl in (sc.in_cmds, sc.out_cmds) for c, d in cl] + [z3.BoolVal(True)])
            comp1 = [p for p in p1 if p.outcome == 'return' and p.value['r1'] != 'crashed' and _is(p.value['r1'], 'Completed')]
            oblige('record_stored_after_success', [(p, z3.And(nocmderr, z3.BoolVal(not (p.value['state'] is not None and p.value['state'][0] == 'state' and p.value['state'][1] not in ('empty', 'corrupt')))))
                                                   for p in comp1], 'a completed run with working commands leaves a complete record')
        if prop == 'C05' and (sc.name == 'single_file' or (tier == 'thorough' and sc.name == 'same_command_text_in_two_dirs')):
            # three invocations: A (complete, from phase 1/2 above without crash) ; change ; B (may die at any mutation point,
            # including while the script runs) ; change ; C must not skip unless B got to the end of its write
            trc = TwoRuns(prog, sc, crash=False)
            pa = trc.phase1()
            recA = trc.merged_record(pa)
            pb = trc.run_phase(2, recA, which=2, crash=True)
            recB, crashed_incomplete = trc.merged_record_after(pb, recA)
            pc = trc.run_phase(4, recB, which=2, crash=False)
            out['paths'] += len(pa) + len(pb) + len(pc)
            ciz = z3.BoolVal(crashed_incomplete) if isinstance(crashed_incomplete, bool) else crashed_incomplete
            skippedC = [p for p in pc if p.outcome == 'return' and p.value['r2'] != 'crashed' and _is(p.value['r2'], 'Skipped')]
            out['crash_paths_B'] = len([p for p in pb if p.outcome == 'return' and p.value['r1'] == 'crashed'])
            out['crash_points_B'] = dict(getattr(trc, 'mutation_descs', {}))
            oblige('death_between_decision_and_complete_write_never_skipped', [(p, ciz) for p in skippedC],
                   'B decided to run its script and zinoma died before B\'s record was complete => C is not Skipped')
        if prop == 'C05':
            oblige('failed_or_cancelled_never_skipped', [(p, tr.script_result != 0) for p in skipped], 'script failed / was cancelled => next run is not Skipped')
            oblige('no_record_no_skip', [(p, z3.Not(wz)) for p in skipped], 'without a complete record from an earlier run nothing is Skipped')
        if prop == 'C06':
            # "no detected change is absorbed by a skip": inputs differ between the start of the script (epoch 0) and the
            # moment the record is computed (epoch 1); nothing changes afterwards; the re-run must not be Skipped
            sc_in = Scenario(sc.name, sc.paths, sc.in_files, sc.in_cmds, [], [])
            changed_during = z3.Not(unchanged_spec(w, sc_in, 0, 1))
            oblige('change_during_build_is_not_absorbed', [(p, z3.And(wz, changed_during, identical_spec(w, sc, 1, 2))) for p in skipped],
                   'a declared input changed while the script was running and nothing changed afterwards => the next run is not Skipped')
        if prop == 'C18':
            allowed = {sc.state_file, '/p/.zinoma'}
            viol = []
            # a third invocation that finds a record file which may or may not decode (truncated, corrupted, foreign)
            rec = tr.merged_record(p1)
            p3 = tr.run_phase(3, (z3.BitVecVal(FILE, 2), z3.And(z3.Bool('prior_record_decodes'), rec[1] if not isinstance(rec[1], bool) else z3.BoolVal(rec[1])), rec[2]), which=2, crash=False)
            out['paths'] += len(p3)
            for p in p1 + p2 + p3:
                for k, d in p.effects:
                    if k != 'fs':
                        continue
                    foreign = d.get('path') not in allowed or (d.get('src') is not None and d.get('src') not in allowed)
                    # the work directory may be created, never removed or replaced
                    whole_dir = d.get('path') == '/p/.zinoma' and d.get('op') not in ('create_dir',)
                    if foreign or whole_dir:
                        viol.append((p, z3.BoolVal(True)))
            oblige('only_own_record_is_written', viol, 'incremental::run mutates nothing but the target\'s own state file and the work directory')
        out['solver_s'] = round(solver_s, 1)
    except Unsupported as e:
        out['error'] = 'unsupported: %s' % e
    except Exception as e:   # pragma: no cover
        import traceback
        out['error'] = 'exception: %s\n%s' % (e, traceback.format_exc()[-1500:])
    out['wall_s'] = round(time.time() - t0, 1)
    return out


def _is(r, variant):
    return isinstance(r, REnum) and r.variant == 'Ok' and isinstance(r.payload[0], REnum) and r.payload[0].variant == variant


def _is_err(r):
    return isinstance(r, REnum) and r.variant == 'Err'


# ---------------------------------------------------------------------- C17: what a target holds while it waits
LONG_WAITS = ('cmd_output', 'script')


def check_shared_waits(arg):
    """Per-target code of a build (incremental::run and everything below it, over the symbolic file system): on no feasible
    path is an operation of unbounded duration (a user command, the build script) awaited while a synchronisation object
    shared between targets (a static) is held.  Returns dict like check_scenario."""
    tier, repo = arg
    t0 = time.time()
    out = {'scenario': None, 'obligations': [], 'error': None, 'paths': 0, 'functions': []}
    try:
        prog = Program(repo)
        sc = [x for x in scenarios(tier) if x.name == 'ext_filter_and_command'][0]
        out['scenario'] = sc.name
        tr = TwoRuns(prog, sc, crash=False)
        p1 = tr.phase1()
        p2 = tr.phase2(p1)
        out['paths'] = len(p1) + len(p2)
        out['functions'] = sorted(tr.I.stats['fns'])
        res = {'name': 'no_unbounded_wait_while_holding_a_lock_shared_between_targets', 'verdict': 'unsat', 'checked_paths': 0, 'locks_seen': [],
               'desc': 'in incremental::run (state comparison, command inputs, the build script, state recording) no user command or script is awaited while a static lock is held'}
        s = _solver(tr.world)
        seen = set()
        for run, paths in ((1, p1), (2, p2)):
            for p in paths:
                held = {}
                hit = None
                for kind, data in p.effects:
                    if kind == 'lock':
                        seen.add('%s %s' % (data.get('obj'), data.get('name') or '(local)'))
                        if data.get('name'):
                            held[data['gid']] = data['name']
                    elif kind == 'unlock':
                        held.pop(data.get('gid'), None)
                    elif kind in LONG_WAITS and held and hit is None:
                        hit = (sorted(set(held.values())), kind, data.get('cmd'))
                res['checked_paths'] += 1
                if hit is None:
                    continue
                c = p.cond()
                s.push()
                s.add(z3.BoolVal(c) if isinstance(c, bool) else c)
                r = s.check()
                s.pop()
                if r == z3.sat and res['verdict'] != 'sat':
                    res['verdict'] = 'sat'
                    res['detail'] = 'run #%d: %s awaited while holding %s' % (run, 'the user command %r' % hit[2] if hit[1] == 'cmd_output' else 'the build script', ', '.join(hit[0]))
                    res['lock'] = hit[0]
                    res['wait'] = hit[1]
                    res['run'] = run
                elif r == z3.unknown and res['verdict'] == 'unsat':
                    res['verdict'] = 'unknown'
        res['locks_seen'] = sorted(seen)
        out['obligations'].append(res)
    except Unsupported as e:
        out['error'] = 'unsupported: %s' % e
    except Exception as e:   # pragma: no cover
        import traceback
        out['error'] = 'exception: %s\n%s' % (e, traceback.format_exc()[-1500:])
    out['wall_s'] = round(time.time() - t0, 1)
    return out
