// Single-actor replay harness (compiled only into the scratch copy, cfg(zx)): launches ONE real target actor through
// the real `launch_target_actor` and feeds it the messages / events of a solver-found LOCAL trace.
// Event file (ZX_LOCAL): first line  `target <kind> <name> <watch 0|1> <dep>*` ; then one event per line:
//   msg <Requested|Unrequested> <Build|Service> <ROOT|name>
//   msg <Ok|Invalidated> <Build|Service> <name> [actual]
//   term | inval | nop
// The schedule (ZX_SCHEDULE) alternates `poll 0 *` (this environment task performs the next event and logs what the
// actor put on the output channel) with directed polls of the actor task (task 1).
use super::target_actor::{self, ActorId, ActorInputMessage, ExecutionKind, TargetActorOutputMessage};
use super::watcher::TargetInvalidatedMessage;
use super::WatchOption;
use crate::domain::{AggregateTarget, BuildTarget, Resources, ServiceTarget, Target, TargetId, TargetMetadata};
use crate::TerminationMessage;
use async_std::channel;
use async_std::task;
use std::future::Future;
use std::pin::Pin;
use std::task::{Context, Poll};

struct YieldNow(bool);
impl Future for YieldNow {
    type Output = ();
    fn poll(mut self: Pin<&mut Self>, _cx: &mut Context<'_>) -> Poll<()> {
        if self.0 {
            Poll::Ready(())
        } else {
            self.0 = true;
            Poll::Pending
        }
    }
}

fn tid(name: &str) -> TargetId {
    TargetId { project_name: None, target_name: name.to_string() }
}
fn kind(s: &str) -> ExecutionKind {
    if s == "Build" {
        ExecutionKind::Build
    } else {
        ExecutionKind::Service
    }
}
fn actor(s: &str) -> ActorId {
    if s == "ROOT" {
        ActorId::Root
    } else {
        ActorId::Target(tid(s))
    }
}

pub fn run() -> anyhow::Result<()> {
    let path = std::env::var("ZX_LOCAL").unwrap();
    let text = std::fs::read_to_string(path)?;
    let mut lines = text.lines();
    let head: Vec<&str> = lines.next().unwrap().split_whitespace().collect();
    let events: Vec<String> = lines.map(|l| l.to_string()).collect();
    let dir: async_std::path::PathBuf = std::env::var("ZX_LOCAL_DIR").unwrap_or_else(|_| "/var/tmp".into()).into();
    let metadata = TargetMetadata { id: tid(head[2]), project_dir: dir.clone(), dependencies: head[4..].iter().map(|d| tid(d)).collect() };
    let mut input = Resources::new();
    if head[3] == "1" {
        input.files.push(crate::domain::FilesResource { paths: vec![dir.join("src_in")], extensions: None });
        // never "unchanged": whether a run is skipped is an oracle of the protocol model, not part of these traces
        input.cmds.push(crate::domain::CmdResource { cmd: "date +%s%N".to_string(), dir: dir.clone() });
    }
    let target = match head[1] {
        "build" => Target::Build(BuildTarget { metadata, build_script: format!("echo {}", head[2]), input, output: Resources::new() }),
        "service" => Target::Service(ServiceTarget { metadata, run_script: format!("echo {}", head[2]), input }),
        _ => Target::Aggregate(AggregateTarget { metadata }),
    };
    let watch: WatchOption = (head[3] == "1").into();
    task::block_on(async move {
        let (out_tx, out_rx) = channel::bounded::<TargetActorOutputMessage>(1024);
        let (_jh, handles) = target_actor::launch_target_actor(target, watch, out_tx)?;
        for ev in events {
            let w: Vec<&str> = ev.split_whitespace().collect();
            if w.is_empty() {
                continue;
            }
            zx_rt::log(&format!("event {}", ev));
            match w[0] {
                "msg" => {
                    let m = match w[1] {
                        "Requested" => ActorInputMessage::Requested { kind: kind(w[2]), requester: actor(w[3]) },
                        "Unrequested" => ActorInputMessage::Unrequested { kind: kind(w[2]), requester: actor(w[3]) },
                        "Ok" => ActorInputMessage::Ok { kind: kind(w[2]), target_id: tid(w[3]), actual: w.get(4) == Some(&"actual") },
                        _ => ActorInputMessage::Invalidated { kind: kind(w[2]), target_id: tid(w[3]) },
                    };
                    let _ = handles.target_actor_input_sender.try_send(m);
                }
                "term" => {
                    let _ = handles.termination_sender.try_send(TerminationMessage);
                }
                _ => {}
            }
            YieldNow(false).await;
            while let Ok(m) = out_rx.try_recv() {
                zx_rt::log(&format!("out {:?}", m));
            }
        }
        loop {
            YieldNow(false).await;
            while let Ok(m) = out_rx.try_recv() {
                zx_rt::log(&format!("out {:?}", m));
            }
        }
        #[allow(unreachable_code)]
        Ok(())
    })
}
