#!/usr/bin/env python3
"""Regenerates MANIFEST.json from the table below (kept next to the code so that it stays consistent)."""
import json
props = [json.loads(l) for l in open('/verif/properties.jsonl')]
ids = [p['id'] for p in props]
PROTO_NOTE = ('Assumes: relay folding (blocking on full channels is searched separately by SYSQ for C04/C10: explicit relay channel, blocking sends, bounded capacities clamped to 1, n=2, K steps), environment oracles at the incremental/watcher function boundaries, '
              'kill succeeds and killed children are reaped at once, hash-set iteration order fixed, library models listed in the evidence; '
              'bounds n<=2 targets (quick) / n<=3 (thorough), K steps, <=2 notifications; trusted base: z3 4.8.12 (QF_BV), the syn front end, the ZX executor and its library models '
              '(validated every run by replaying solver witnesses on the real code compiled against the model runtime).')
SYM_NOTE = ('Assumes the library/environment models listed in the evidence (virtual file system, walkdir, bincode round trip, command outputs, regex via Python re); bounds = the path universes / project families listed in the evidence; trusted base: z3, the syn front end, the ZX executor; validated every run by native runs of the real code.')
CLAIMED = {
 'C01': ('model_checking', 'SYS bounded model checking (z3 over step summaries symbolically executed from the actor sources): no spawn before every dependency succeeded / was started; no decision to start while the last word from a dependency is not Ok (watch). Counterexamples are replayed on the real code.', '4 C01'),
 'C04': ('model_checking', 'SYS: every quiescent state of a successful one-shot run has exited Ok with every needed build done (skipped builds included); completeness of K is an obligation; SYSQ: no blocked state (circular wait between the relaying engine and the actors) within K steps under clamped capacities. Found F1 and F2 (fixed).', '4 C04'),
 'C07': ('model_checking', 'SYS with symbolic failing subset: no dependent of a failed target starts, the one-shot run returns Err iff something failed, watch mode keeps running.', '4 C07'),
 'C08': ('model_checking', 'SYS with duplicated roots: never two starts/results of a target, nothing outside the closure is launched, exactly once on success.', '4 C08'),
 'C10': ('model_checking', 'SYS with processes that never exit by themselves: signal or failure at any step still leads to exit with every spawned process killed and reaped; SYSQ: a signal still leads to exit when the output channel is full (actors blocked in send); LOCAL: an actor never returns while a process it spawned is running and never replaces a running process.', '4 C10'),
 'C11': ('model_checking', 'SYS (incl. watch mode and a pinned aggregate-over-build-and-service graph): main stays alive iff a service is requested (directly or through aggregates); services are single-instance, running whenever a dependent build starts, and stopped at exit.', '4 C11'),
 'C02': ('other', 'symbolic execution of the real incremental::run over a symbolic file system (two invocations): run #2 = Skipped implies a complete record from run #1 and an unchanged declared tree by an independent reference semantics (listing, mtime-or-hash, command text).', '4 C02'),
 'C03': ('other', 'same exploration: record stored and nothing changed => Skipped; a completed run stores its record; found F3 (fixed).', '4 C03'),
 'C05': ('other', 'same exploration plus a three-invocation chain with zinoma dying at every file-system mutation point / while the script runs: no skip unless the record of the interrupted run was complete; failed or cancelled scripts never skip.', '4 C05'),
 'C06': ('model_checking', 'SYS bounded model checking of the composed watch-mode system (n=2, K=20, at most E=1 file-change notification per run in the quick tier; E=2 and n=3 in the thorough tier): at every quiescent state reached without signal every requested build/service target has been (re)started after the last change to its inputs and after the last completed run of every build it depends on (directly or through aggregates) -- also when scripts may fail (a failed execution that started before the last change must be repeated). LOCAL bounded model checking of each actor in an open environment (watch mode): no acknowledgement of a run invalidated in flight, no start while the last word of a dependency is out of date, late requesters answered. The absorbed-change clause is decided over incremental::run on the symbolic file system (known finding F6).', '4 C06'),
 'C09': ('other', 'symbolic execution of the real resolver over project families with solver-chosen references and requests, compared path by path with a reference closure/cycle/kind semantics; the same through the whole of main() (MAINRUN: command line -> ids -> resolution -> what the engine is started with); native confirmation through the real binary.', '4 C09'),
 'C13': ('other', 'resolver exploration: the input of every consumer = own resources + outputs of each X.output producer bound to the producer directory; native two-run confirmation.', '4 C13'),
 'C18': ('other', 'incremental::run writes nothing but its own record (frame condition over every explored path); entry independence: main() entered in the importing project and in the imported project resolves the same target to identical values (directory, resource paths, command directories), natively: built from the importer, skipped from its own directory, also when that directory is spelt with `..`; record files of distinct targets of a project are distinct.', '4 C18'),
 'C19': ('other', 'resolver exploration with bare and qualified spellings: accepted names, same id for both spellings, bare references resolve in the declaring project; MAINRUN: the engine is started with exactly the targets the requested spellings denote (same bare name in two projects, both orders) and their closure.', '4 C19'),
 'C20': ('model_checking', 'LOCAL bounded model checking of the aggregate actor: acknowledges exactly when the last dependency did, answers late requesters, never misdirects; SYS obligations of C04/C08/C11 range over aggregate roots.', '4 C20'),
 'C12': ('other', 'symbolic execution of the --clean branch of main(), clean.rs, work_dir.rs, delete_saved_env_state over a symbolic tree: the deletion primitives invoked = the reference set (declared outputs / matching files / own state or whole work dir), for --clean and --clean T; a symlink (to a directory, a file or nothing) below a filtered output and a declared plain output that may itself be a symlink are part of the tree; MAINRUN: --clean T forgets the state of T and of all its dependencies and of nothing else. Found F9 (fixed).', '4 C12'),
 'C14': ('other', 'decidable part only: the import walk of yaml::Config::load + ir::Config::from over solver-chosen project names and import edges (keys = names, named imports, unique names, termination, cycles/self-imports); MAINRUN with --clean: a configuration rejected at resolution time has nothing deleted before the error. The byte-level YAML clauses (no panic on any byte string, unknown keys, exactly one kind) are NOT decided (serde_yaml/yaml-rust not encodable within reach). Found F5 (fixed).', '4 C14'),
 'C15': ('other', 'symbolic execution of fs::list_files_in_resources / matches_extensions / is_work_dir over a symbolic tree with awkward names (dot-files, multi-dot, name = extension, non-UTF-8, .zinoma at depth, a symlink to a file / directory / nothing) against the reference listing (a link that resolves to a regular file counts as that file); transform_extensions normalisation.', '4 C15'),
 'C16': ('other', 'symbolic execution of TargetWatcher::new and its event closure over solver-chosen events (1-2 paths incl. non-UTF-8, Err events, full slot): no panic, notifies iff a relevant path, a later relevant event is not dropped, missing paths do not fail start-up; several input resources with nested/equal paths and different filters are each watched with their own filter. Found F4 (fixed).', '4 C16'),
 'C17': ('model_checking', 'SYS with a symbolic set of hanging scripts: at quiescence every target none of whose transitive dependencies hangs has been started; over every path of incremental::run no user command / build script is awaited while a lock living in a static (shared between targets) is held, and the build future holds no process-wide slot (static channel used as a pool) while its script runs.', '4 C17'),
}
checks = []
for pid in ids:
    if pid in CLAIMED:
        cat, text, ref = CLAIMED[pid]
        fam = 'proto' if cat == 'model_checking' else 'sym'
        checks.append({
            'property_id': pid,
            'quick_cmd': 'python3-vt run_check.py %s --tier quick' % pid,
            'thorough_cmd': 'python3-vt run_check.py %s --tier thorough' % pid,
            'evidence_file': '/verif/evidence/%s.json' % pid,
            'replay_cmd_template': 'python3-vt run_check.py --replay {path}',
            'engine': 'zx',
            'level_claimed': {'category': cat, 'text': text, 'design_ref': 'DESIGN.md section ' + ref},
            'level_note': PROTO_NOTE if fam == 'proto' else SYM_NOTE,
            'technique': ('solver-based: symbolic execution of the Rust source (syn AST -> path-wise executor) into step summaries, z3 QF_BV bounded model checking over symbolic graph/schedule/faults, native replay of counterexamples'
                          if fam == 'proto' else
                          'solver-based: path-wise symbolic execution of the real Rust source (syn AST) over symbolic inputs, z3 decides path feasibility and one query per path against a reference semantics; native replay of counterexamples'),
        })
na = [{'property_id': pid, 'reason': 'check not built yet (construction in progress)'} for pid in ids if pid not in CLAIMED]
m = {'version': 1, 'setup_cmd': './setup.sh',
     'hooks': {'guard': 'cfg(zx) (set only on a scratch copy of /repo/src; no hook lives in /repo)',
               'enable': 'none needed: checks copy /repo/src to a scratch crate built against /verif/models-rs with RUSTFLAGS=--cfg zx',
               'baseline_off_cmd': 'cd /repo && cargo test --workspace --no-fail-fast --offline', 'source_commits': [], 'add_only': True},
     'engines': [{'name': 'zx', 'path': '/verif/zx', 'serves_properties': sorted(CLAIMED), 'kind_free_text': 'own symbolic executor over the syn AST of /repo/src + z3; native replay on model crates (models-rs)'}],
     'checks': checks, 'not_applicable': na,
     'notes': 'exit 2 = inconclusive (never counted as a pass). Known findings: /verif/known_findings.json.'}
json.dump(m, open('/verif/MANIFEST.json', 'w'), indent=1)
print(len(checks), 'checks', len(na), 'n/a')
