#!/usr/bin/env python3
"""Regenerates MANIFEST.json from the table below (kept next to the code so that it stays consistent)."""
import json
props = [json.loads(l) for l in open('/verif/properties.jsonl')]
ids = [p['id'] for p in props]
PROTO_NOTE = ('Assumes: relay folding (channel-capacity blocking outside), environment oracles at the incremental/watcher function boundaries, '
              'kill succeeds and killed children are reaped at once, hash-set iteration order fixed, library models listed in the evidence; '
              'bounds n<=2 targets (quick) / n<=3 (thorough), K steps, <=2 notifications; trusted base: z3 4.8.12 (QF_BV), the syn front end, the ZX executor and its library models '
              '(validated every run by replaying solver witnesses on the real code compiled against the model runtime).')
CLAIMED = {
 'C01': ('model_checking', 'SYS bounded model checking (z3 over step summaries symbolically executed from the actor sources): no spawn before every dependency succeeded / was started; no decision to start while the last word from a dependency is not Ok (watch). Counterexamples are replayed on the real code.', '4 C01'),
 'C04': ('model_checking', 'SYS: every quiescent state of a successful one-shot run has exited Ok with every needed build done; completeness of K is an obligation; found F1 (fixed).', '4 C04'),
 'C07': ('model_checking', 'SYS with symbolic failing subset: no dependent of a failed target starts, the one-shot run returns Err iff something failed, watch mode keeps running.', '4 C07'),
 'C08': ('model_checking', 'SYS with duplicated roots: never two starts/results of a target, nothing outside the closure is launched, exactly once on success.', '4 C08'),
 'C10': ('model_checking', 'SYS with processes that never exit by themselves: signal or failure at any step still leads to exit with every spawned process killed and reaped.', '4 C10'),
 'C11': ('model_checking', 'SYS: main stays alive iff a service is requested (directly or through aggregates); services are single-instance and stopped at exit.', '4 C11'),
 'C17': ('model_checking', 'SYS with a symbolic set of hanging scripts: at quiescence every target none of whose transitive dependencies hangs has been started.', '4 C17'),
}
checks = []
for pid in ids:
    if pid in CLAIMED:
        cat, text, ref = CLAIMED[pid]
        checks.append({
            'property_id': pid,
            'quick_cmd': 'python3-vt run_check.py %s --tier quick' % pid,
            'thorough_cmd': 'python3-vt run_check.py %s --tier thorough' % pid,
            'evidence_file': '/verif/evidence/%s.json' % pid,
            'replay_cmd_template': 'python3-vt run_check.py --replay {path}',
            'engine': 'zx',
            'level_claimed': {'category': cat, 'text': text, 'design_ref': 'DESIGN.md section ' + ref},
            'level_note': PROTO_NOTE,
            'technique': 'solver-based: symbolic execution of the Rust source (syn AST -> path-wise executor) into step summaries, z3 QF_BV bounded model checking over symbolic graph/schedule/faults, native replay of counterexamples',
        })
na = [{'property_id': pid, 'reason': 'check not built yet (construction in progress)'} for pid in ids if pid not in CLAIMED]
m = {'version': 1, 'setup_cmd': './setup.sh',
     'hooks': {'guard': 'cfg(zx) (set only on a scratch copy of /repo/src; no hook lives in /repo)',
               'enable': 'none needed: checks copy /repo/src to a scratch crate built against /verif/models-rs with RUSTFLAGS=--cfg zx',
               'baseline_off_cmd': 'cd /repo && cargo test --workspace --no-fail-fast --offline', 'source_commits': [], 'add_only': True},
     'engines': [{'name': 'zx', 'path': '/verif/zx', 'serves_properties': sorted(CLAIMED), 'kind_free_text': 'own symbolic executor over the syn AST of /repo/src + z3; native replay on model crates (models-rs)'}],
     'checks': checks, 'not_applicable': na,
     'notes': 'exit 2 = inconclusive (never counted as a pass). Known findings: /verif/known_findings.json.'}
json.dump(m, open('/verif/MANIFEST.json', 'w'), indent=1)
print(len(checks), 'checks', len(na), 'n/a')
