#!/bin/sh
# Offline setup: build the syn front end. Everything else is Python (python3-vt) + solvers on PATH.
set -e
cd "$(dirname "$0")"
export CARGO_NET_OFFLINE=true
(cd zx/front && cargo build --release --offline 2>&1 | tail -3)
test -x zx/front/target/release/zxfront
echo "setup ok"
