#!/bin/sh
# Offline setup: build the syn front end and warm the native-replay build cache.
set -e
cd "$(dirname "$0")"
export CARGO_NET_OFFLINE=true
(cd zx/front && cargo build --release --offline 2>&1 | tail -3)
test -x zx/front/target/release/zxfront
python3-vt -c "
import sys; sys.path.insert(0,'/verif')
from zx.native import build_native
print(build_native('/repo'))
"
echo "setup ok"
